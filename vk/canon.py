"""Semantics-preserving canonicalisation of the parsed program before analysis.

The rules of this checker are written against the shape the pinned tree has.  Three classic refactorings leave
behaviour untouched but move code out of the place a rule looks at:

  * Extract Function   — part of an analysed function is moved into a new (usually private) helper;
  * Extract Variable   — a sub-expression is given a new local name;
  * Rename             — handled by vk/alpha.py.

This module undoes the first two *on the AST that is analysed* (never on disk).  Every rewrite applied here is a
behaviour-preserving program transformation on its own (Inline Function, Inline Variable, splitting of a
tuple-to-tuple assignment), applied only under side conditions that make it so; the reference tree
(vk/refnames.json) is consulted only to choose *which* functions and locals are candidates — the ones that did
not exist there.  A wrong or missing choice can therefore only leave a construct unrecognised (an alarm), it can
never turn a violating program into a conforming one: the rules decide on a program equivalent to the one on disk.

Inline Function, side conditions
  - the callee is a module-level function (or a method called as `self.m(...)`) of the same module, absent from
    the reference tree, without decorators, generators, nested scopes that capture, global/nonlocal, *args/**kw;
  - it is not recursive and the call passes no starred arguments;
  - the callee's free names are not shadowed by locals of the caller;
  - the call is evaluated before any other call of its statement that is not part of its own arguments
    (so hoisting the callee's statements in front of the statement keeps the order of effects); calls inside
    lambdas, comprehensions, conditional expressions and short-circuit operands are never hoisted;
  - `return` is only rewritten in tail position (if/else ladders, guard clauses, `with` at the tail); a callee
    returning from inside a loop or a try block is inlined only where the call is itself `return f(...)`;
  - a parameter is replaced by its argument expression only if the parameter is never re-bound and the argument
    has no call in it; otherwise it is bound to a fresh local first, in argument order;
  - callee locals get names that are fresh in the caller.
A callee whose body is a single `return <expr>` is substituted at expression level wherever it is called, under the
additional condition that no argument containing a call is used more than once.

Inline Variable, side conditions (only for locals absent from the reference function)
  - exactly one binding `v = e`, a plain assignment to a name, not inside a loop body that also uses `v` before it;
  - every use of `v` is in a later statement of the same block or nested in one;
  - `e` has no call other than to a small set of pure builtins/numpy constructors, or `v` is used exactly once, in
    the statement that immediately follows, at a position evaluated before any other call;
  - no name occurring in `e` is re-bound, and no attribute/subscript path occurring in `e` is stored to, between the
    binding and the last use.
"""
import ast
import copy

from . import alpha


class NotInlinable(Exception):
    pass


# ---------------------------------------------------------------------------------------------------- helpers
_SCOPES = (ast.Lambda, ast.ListComp, ast.SetComp, ast.DictComp, ast.GeneratorExp)


def has_call(e):
    return any(isinstance(x, (ast.Call, ast.Await, ast.Yield, ast.YieldFrom, ast.NamedExpr)) for x in ast.walk(e))


def is_stable(e):
    """no call, no scope: evaluating it twice in the same state gives the same value and has no effect"""
    for x in ast.walk(e):
        if isinstance(x, (ast.Call, ast.Await, ast.Yield, ast.YieldFrom, ast.NamedExpr, ast.Starred) + _SCOPES):
            return False
    return True


def stored_names(node):
    out = set()
    for x in ast.walk(node):
        if isinstance(x, ast.Name) and isinstance(x.ctx, (ast.Store, ast.Del)):
            out.add(x.id)
        elif isinstance(x, ast.ExceptHandler) and x.name:
            out.add(x.name)
        elif isinstance(x, (ast.Import, ast.ImportFrom)):
            for a in x.names:
                out.add((a.asname or a.name).split(".")[0])
    return out


def all_names(node):
    out = set()
    for x in ast.walk(node):
        if isinstance(x, ast.Name):
            out.add(x.id)
        elif isinstance(x, ast.arg):
            out.add(x.arg)
        elif isinstance(x, ast.ExceptHandler) and x.name:
            out.add(x.name)
    return out


def strip_doc(body):
    if body and isinstance(body[0], ast.Expr) and isinstance(body[0].value, ast.Constant) \
            and isinstance(body[0].value.value, str):
        return body[1:]
    return body


def has_return(node):
    """a `return` belonging to this function (not to a nested def)"""
    stack = [node]
    while stack:
        x = stack.pop()
        if isinstance(x, ast.Return):
            return True
        if isinstance(x, (ast.FunctionDef, ast.AsyncFunctionDef, ast.Lambda, ast.ClassDef)) and x is not node:
            continue
        stack.extend(ast.iter_child_nodes(x))
    return False


class Helper:
    def __init__(self, name, node, is_method):
        self.name = name
        self.node = node
        self.is_method = is_method
        a = node.args
        if a.vararg or a.kwarg or a.posonlyargs and False:
            raise NotInlinable("varargs")
        if node.decorator_list and not (is_method and False):
            raise NotInlinable("decorated")
        if isinstance(node, ast.AsyncFunctionDef):
            raise NotInlinable("async")
        for x in ast.walk(node):
            if isinstance(x, (ast.Yield, ast.YieldFrom, ast.Await, ast.Global, ast.Nonlocal)):
                raise NotInlinable("generator/global")
            if isinstance(x, (ast.FunctionDef, ast.AsyncFunctionDef, ast.ClassDef)) and x is not node:
                raise NotInlinable("nested scope")
            if isinstance(x, ast.Call) and isinstance(x.func, ast.Name) and x.func.id == name and not is_method:
                raise NotInlinable("recursive")
            if isinstance(x, ast.Call) and is_method and isinstance(x.func, ast.Attribute) and x.func.attr == name \
                    and isinstance(x.func.value, ast.Name) and x.func.value.id == "self":
                raise NotInlinable("recursive")
        pos = a.posonlyargs + a.args
        defaults = [None] * (len(pos) - len(a.defaults)) + list(a.defaults)
        self.params = [(p.arg, d) for p, d in zip(pos, defaults)]
        self.params += [(p.arg, d) for p, d in zip(a.kwonlyargs, a.kw_defaults)]
        self.npos = len(pos)
        self.body = strip_doc(node.body)
        pnames = {p for p, _ in self.params}
        st = set()
        for s in self.body:
            st |= stored_names(s)
        self.rebound = st & pnames
        self.locals = st - pnames
        self.free = set()
        for s in self.body:
            for x in ast.walk(s):
                if isinstance(x, ast.Name) and x.id not in pnames and x.id not in self.locals:
                    self.free.add(x.id)
        self.is_expr = len(self.body) == 1 and isinstance(self.body[0], ast.Return) and self.body[0].value is not None
        self.uses = {}
        for s in self.body:
            for x in ast.walk(s):
                if isinstance(x, ast.Name) and x.id in pnames:
                    self.uses[x.id] = self.uses.get(x.id, 0) + 1

    def bind(self, call):
        """[(param, argument expression)] in evaluation order of the call"""
        if any(isinstance(a, ast.Starred) for a in call.args) or any(k.arg is None for k in call.keywords):
            raise NotInlinable("starred call")
        params = self.params[1:] if self.is_method else self.params
        npos = self.npos - (1 if self.is_method else 0)
        if len(call.args) > npos:
            raise NotInlinable("too many positional arguments")
        bound = {}
        order = []
        for (p, _), a in zip(params, call.args):
            bound[p] = a
            order.append(p)
        names = [p for p, _ in params]
        for k in call.keywords:
            if k.arg not in names or k.arg in bound:
                raise NotInlinable("bad keyword")
            bound[k.arg] = k.value
            order.append(k.arg)
        for p, d in params:
            if p not in bound:
                if d is None:
                    raise NotInlinable("missing argument")
                bound[p] = copy.deepcopy(d)
                order.append(p)
        return [(p, bound[p]) for p in order]


class _Subst(ast.NodeTransformer):
    def __init__(self, exprs, renames):
        self.exprs, self.renames = exprs, renames

    def visit_Name(self, n):
        if n.id in self.exprs and isinstance(n.ctx, ast.Load):
            return ast.copy_location(copy.deepcopy(self.exprs[n.id]), n)
        if n.id in self.renames:
            return ast.copy_location(ast.Name(id=self.renames[n.id], ctx=n.ctx), n)
        return n

    def visit_ExceptHandler(self, n):
        self.generic_visit(n)
        if n.name in self.renames:
            n.name = self.renames[n.name]
        return n


def _assign(target, value, like):
    if value is None:
        value = ast.Constant(value=None)
    t = copy.deepcopy(target)
    for x in ast.walk(t):
        if isinstance(x, (ast.Name, ast.Tuple, ast.List, ast.Attribute, ast.Subscript, ast.Starred)) and hasattr(x, "ctx"):
            pass
    node = ast.Assign(targets=[t], value=value)
    ast.copy_location(node, like)
    ast.fix_missing_locations(node)
    return node


def split_tuple_assign(node):
    """`a, b = x, y`  ->  `a = x; b = y` when no target name is read by a later element; `_ = pure` is dropped"""
    if not (isinstance(node, ast.Assign) and len(node.targets) == 1 and isinstance(node.targets[0], (ast.Tuple, ast.List))
            and isinstance(node.value, (ast.Tuple, ast.List)) and len(node.targets[0].elts) == len(node.value.elts)):
        return [node]
    ts, vs = node.targets[0].elts, node.value.elts
    if any(isinstance(x, ast.Starred) for x in ts + vs):
        return [node]
    if not all(isinstance(t, ast.Name) for t in ts):
        return [node]
    tnames = [t.id for t in ts]
    for i, v in enumerate(vs):
        # element i is evaluated before any target is stored in the original; keep that meaning
        if any(isinstance(x, ast.Name) and x.id in tnames[:i] for x in ast.walk(v)):
            return [node]
    out = []
    for t, v in zip(ts, vs):
        if t.id == "_" and not has_call(v):
            continue
        out.append(_assign(t, v, node))
    return out or [ast.copy_location(ast.Pass(), node)]


def convert_returns(stmts, emit):
    """rewrite tail-position returns with emit(value) -> [stmt]; returns (stmts, terminated)"""
    out = []
    for i, s in enumerate(stmts):
        if isinstance(s, ast.Return):
            out.extend(emit(s.value, s))
            return out, True
        if not has_return(s):
            out.append(s)
            continue
        rest = stmts[i + 1:]
        if isinstance(s, ast.If):
            b, bt = convert_returns(list(s.body) + copy.deepcopy(rest), emit)
            o, ot = convert_returns(list(s.orelse) + copy.deepcopy(rest), emit)
            body_falls = not _always_returns(s.body)
            else_falls = not _always_returns(s.orelse)
            if body_falls and else_falls and len(rest) > 4:
                raise NotInlinable("return in one arm of a branch followed by a long tail")
            new = ast.If(test=s.test, body=b or [ast.Pass()], orelse=o)
            ast.copy_location(new, s)
            ast.fix_missing_locations(new)
            out.append(new)
            return out, bt and ot
        if isinstance(s, (ast.With,)):
            b, bt = convert_returns(list(s.body), emit)
            if not bt and rest:
                raise NotInlinable("return inside with, not in tail position")
            new = ast.With(items=s.items, body=b or [ast.Pass()])
            ast.copy_location(new, s)
            ast.fix_missing_locations(new)
            out.append(new)
            if bt:
                return out, True
            continue
        raise NotInlinable("return inside " + type(s).__name__)
    return out, False


def _always_returns(stmts):
    for s in stmts:
        if isinstance(s, (ast.Return, ast.Raise)):
            return True
        if isinstance(s, ast.If) and s.orelse and _always_returns(s.body) and _always_returns(s.orelse):
            return True
        if isinstance(s, ast.With) and _always_returns(s.body):
            return True
    return False


# ------------------------------------------------------------------------------------------- evaluation order
def calls_in_eval_order(expr):
    """[(call, hoistable)] in the order the calls complete.  hoistable=False under lambda/comprehension/IfExp arm/
    short-circuit operand"""
    out = []

    def walk(n, ok):
        if isinstance(n, _SCOPES):
            for c in ast.iter_child_nodes(n):
                walk(c, False)
            return
        if isinstance(n, ast.IfExp):
            walk(n.test, ok)
            walk(n.body, False)
            walk(n.orelse, False)
            return
        if isinstance(n, ast.BoolOp):
            walk(n.values[0], ok)
            for v in n.values[1:]:
                walk(v, False)
            return
        if isinstance(n, ast.Compare) and len(n.ops) > 1:
            walk(n.left, ok)
            walk(n.comparators[0], ok)
            for v in n.comparators[1:]:
                walk(v, False)
            return
        for c in ast.iter_child_nodes(n):
            walk(c, ok)
        if isinstance(n, ast.Call):
            out.append((n, ok))
    walk(expr, True)
    return out


# --------------------------------------------------------------------------------------------------- inliner
class Inliner:
    MAX_ROUNDS = 4

    def __init__(self, tree, ref_functions):
        self.tree = tree
        self.applied = []
        self.helpers = {}       # name -> Helper (module level)
        self.mhelpers = {}      # (class, name) -> Helper
        self.refused = {}
        for q, fn in alpha.functions_of(tree):
            if q in ref_functions:
                continue
            try:
                if "." in q:
                    c, m = q.split(".", 1)
                    if m.startswith("__") or not fn.args.args or fn.args.args[0].arg != "self":
                        continue
                    self.mhelpers[(c, m)] = Helper(m, fn, True)
                else:
                    self.helpers[q] = Helper(q, fn, False)
            except NotInlinable as e:
                self.refused[q] = str(e)

    # which helper does this call name?
    def helper_of(self, call, cls):
        f = call.func
        if isinstance(f, ast.Name) and f.id in self.helpers:
            return self.helpers[f.id]
        if cls and isinstance(f, ast.Attribute) and isinstance(f.value, ast.Name) and f.value.id == "self" \
                and (cls, f.attr) in self.mhelpers:
            return self.mhelpers[(cls, f.attr)]
        return None

    def run(self):
        if not self.helpers and not self.mhelpers:
            return self.applied
        for _ in range(self.MAX_ROUNDS):
            changed = False
            for q, fn in alpha.functions_of(self.tree):
                cls = q.split(".")[0] if "." in q else None
                if self._function(q, fn, cls):
                    changed = True
                    # a helper that itself called helpers must be re-described
                    if q in self.helpers:
                        try:
                            self.helpers[q] = Helper(q, fn, False)
                        except NotInlinable as e:
                            self.refused[q] = str(e)
                            del self.helpers[q]
            if not changed:
                break
        return self.applied

    # one caller ----------------------------------------------------------------------------------------------
    def _function(self, q, fn, cls):
        self.q, self.cls = q, cls
        self.names = all_names(fn)
        self.caller_locals = stored_names(fn) | {a.arg for a in ast.walk(fn.args) if isinstance(a, ast.arg)}
        self.counter = 0
        self.changed = False
        fn.body = self._block(fn.body)
        return self.changed

    def fresh(self, base):
        if base not in self.names:
            self.names.add(base)
            return base
        i = 2
        while f"{base}_{i}" in self.names:
            i += 1
        self.names.add(f"{base}_{i}")
        return f"{base}_{i}"

    def _block(self, stmts):
        out = []
        for s in stmts:
            out.extend(self._stmt(s))
        return out or [ast.Pass()]

    def _stmt(self, s):
        if isinstance(s, (ast.FunctionDef, ast.AsyncFunctionDef, ast.ClassDef)):
            return [s]
        pre = []
        if isinstance(s, (ast.If,)):
            pre = self._hoist_from(s, "test")
        elif isinstance(s, (ast.For,)):
            pre = self._hoist_from(s, "iter")
        elif isinstance(s, ast.With):
            pre = self._hoist_from(s.items[0], "context_expr") if s.items else []
        elif isinstance(s, (ast.While, ast.Try, ast.AsyncFor, ast.AsyncWith)) or hasattr(ast, "Match") and isinstance(s, ast.Match):
            self._expr_level(s, header_only=True)
        if isinstance(s, (ast.If, ast.For, ast.While, ast.With, ast.Try, ast.AsyncFor, ast.AsyncWith)) or \
                hasattr(ast, "Match") and isinstance(s, ast.Match):
            for fld in ("body", "orelse", "finalbody"):
                b = getattr(s, fld, None)
                if b:
                    setattr(s, fld, self._block(b))
            for h in getattr(s, "handlers", []) or []:
                h.body = self._block(h.body)
            for c in getattr(s, "cases", []) or []:
                c.body = self._block(c.body)
            return pre + [s]
        # simple statement
        return self._simple(s)

    def _hoist_from(self, holder, field):
        """inline hoistable helper calls of the expression holder.field; returns the statements to put in front"""
        pre = []
        for _ in range(8):
            expr = getattr(holder, field)
            self._subst_expr_helpers(holder, field)
            expr = getattr(holder, field)
            cand = self._first_hoistable(expr)
            if cand is None:
                break
            call, h = cand
            try:
                stmts, res = self._instantiate(h, call, mode="nested")
            except NotInlinable as e:
                self.refused[f"{self.q}->{h.name}"] = str(e)
                call._canon_refused = True
                continue
            setattr(holder, field, _Replace(call, res).visit(expr))
            pre.extend(stmts)
        return pre

    def _first_hoistable(self, expr):
        seq = calls_in_eval_order(expr)
        for i, (c, ok) in enumerate(seq):
            h = self.helper_of(c, self.cls)
            if h is None or getattr(c, "_canon_refused", False):
                continue
            if not ok:
                continue
            inside = set(id(x) for x in ast.walk(c))
            if all(id(e) in inside for e, _ in seq[:i]):
                return c, h
        return None

    def _subst_expr_helpers(self, holder, field):
        """expression-level substitution of single-return helpers anywhere in holder.field"""
        for _ in range(8):
            expr = getattr(holder, field)
            if expr is None:
                return
            done = False
            for c in [x for x in ast.walk(expr) if isinstance(x, ast.Call)]:
                h = self.helper_of(c, self.cls)
                if h is None or not h.is_expr or getattr(c, "_canon_refused", False):
                    continue
                try:
                    new = self._expr_instance(h, c)
                except NotInlinable as e:
                    self.refused[f"{self.q}->{h.name}"] = str(e)
                    c._canon_refused = True
                    continue
                if expr is c:
                    setattr(holder, field, new)
                else:
                    setattr(holder, field, _Replace(c, new).visit(expr))
                self.applied.append((self.q, "inline-expr", h.name))
                self.changed = True
                done = True
                break
            if not done:
                return

    def _expr_level(self, s, header_only=False):
        for fld, val in ast.iter_fields(s):
            if isinstance(val, ast.expr):
                self._subst_expr_helpers(s, fld)
            elif isinstance(val, list) and not header_only:
                pass

    def _expr_instance(self, h, call):
        if h.free & self.caller_locals:
            raise NotInlinable("callee free names shadowed by caller locals: %s" % sorted(h.free & self.caller_locals))
        bound = h.bind(call)
        exprs = {}
        if h.is_method:
            exprs[h.params[0][0]] = ast.Name(id="self", ctx=ast.Load())
        for p, a in bound:
            if p in h.rebound:
                raise NotInlinable("parameter re-bound")
            if has_call(a) and h.uses.get(p, 0) != 1:
                raise NotInlinable("argument with a call used %d times" % h.uses.get(p, 0))
            if not is_stable(a) and h.uses.get(p, 0) > 1:
                raise NotInlinable("unstable argument used more than once")
            exprs[p] = a
        # arguments with calls must keep their relative order: require at most one of them
        if sum(1 for _, a in bound if has_call(a)) > 1:
            raise NotInlinable("several arguments with calls")
        renames = {}
        arg_names = set()
        for _, a in bound:
            arg_names |= {x.id for x in ast.walk(a) if isinstance(x, ast.Name)}
        for l in h.locals:          # comprehension variables: scoped to their comprehension, so they only need a
            if l in arg_names:      # fresh name when a substituted argument mentions the same name (capture)
                renames[l] = self.fresh(l)
        value = copy.deepcopy(h.body[0].value)
        value = _Subst(exprs, renames).visit(value)
        ast.copy_location(value, call)
        ast.fix_missing_locations(value)
        return value

    def _simple(self, s):
        pre = []
        # expression-level helpers first, in every expression field of the statement
        for fld, val in list(ast.iter_fields(s)):
            if isinstance(val, ast.expr):
                self._subst_expr_helpers(s, fld)
        for _ in range(8):
            # whole-statement forms
            val = getattr(s, "value", None)
            if isinstance(val, ast.Call) and isinstance(s, (ast.Assign, ast.Expr, ast.Return)):
                h = self.helper_of(val, self.cls)
                if h is not None and not getattr(val, "_canon_refused", False) and not any(
                        self.helper_of(c, self.cls) for c, _ in calls_in_eval_order(val)[:-1]):
                    try:
                        if isinstance(s, ast.Return):
                            stmts, _ = self._instantiate(h, val, mode="return")
                            return pre + stmts
                        if isinstance(s, ast.Expr):
                            stmts, _ = self._instantiate(h, val, mode="expr")
                            return pre + stmts
                        if len(s.targets) == 1:
                            stmts, _ = self._instantiate(h, val, mode="assign", target=s.targets[0])
                            return pre + stmts
                    except NotInlinable as e:
                        self.refused[f"{self.q}->{h.name}"] = str(e)
                        val._canon_refused = True
            found = None
            for fld, v in ast.iter_fields(s):
                if isinstance(v, ast.expr) and not (isinstance(s, (ast.Assign, ast.AugAssign, ast.AnnAssign)) and fld in ("targets", "target")):
                    cand = self._first_hoistable(v)
                    if cand is not None:
                        found = (fld, v) + cand
                        break
                # only the first expression field that contains calls may be hoisted from
                if isinstance(v, ast.expr) and has_call(v):
                    break
            if found is None:
                break
            fld, v, call, h = found
            try:
                stmts, res = self._instantiate(h, call, mode="nested")
            except NotInlinable as e:
                self.refused[f"{self.q}->{h.name}"] = str(e)
                call._canon_refused = True
                continue
            setattr(s, fld, _Replace(call, res).visit(v))
            pre.extend(stmts)
        return pre + [s]

    def _instantiate(self, h, call, mode, target=None):
        if h.free & self.caller_locals:
            raise NotInlinable("callee free names shadowed by caller locals: %s" % sorted(h.free & self.caller_locals))
        bound = h.bind(call)
        exprs, renames, pre = {}, {}, []
        if h.is_method:
            exprs[h.params[0][0]] = ast.Name(id="self", ctx=ast.Load())
            if h.params[0][0] in h.rebound:
                raise NotInlinable("self re-bound")
        for p, a in bound:
            if p not in h.rebound and is_stable(a):
                exprs[p] = a
            else:
                nm = self.fresh(p)
                renames[p] = nm
                pre.append(_assign(ast.Name(id=nm, ctx=ast.Store()), copy.deepcopy(a), call))
        # a substituted argument must not be invalidated by a store in the callee body to one of its names
        body_stores = set()
        for s in h.body:
            body_stores |= stored_names(s)
        for l in sorted(h.locals):
            renames[l] = self.fresh(l)
        for p, e in exprs.items():
            if any(isinstance(x, ast.Name) and x.id in {renames.get(b, b) for b in body_stores} for x in ast.walk(e)):
                raise NotInlinable("argument expression names a variable the callee assigns")
        body = [_Subst(exprs, renames).visit(copy.deepcopy(s)) for s in h.body]
        res = None
        if mode == "return":
            stmts = body
        else:
            if mode == "assign":
                if not isinstance(target, (ast.Name, ast.Tuple, ast.List)) or not all(
                        isinstance(x, (ast.Name, ast.Tuple, ast.List, ast.Store)) for x in ast.walk(target)):
                    # attribute / subscript targets: evaluate through a temporary
                    mode = "nested-assign"
            if mode in ("nested", "nested-assign"):
                tmp = self.fresh("_ret_" + h.name.lstrip("_"))
                tnode = ast.Name(id=tmp, ctx=ast.Store())
                emit = lambda v, like: split_tuple_assign(_assign(tnode, copy.deepcopy(v) if v is not None else None, like))
                res = ast.Name(id=tmp, ctx=ast.Load())
            elif mode == "assign":
                emit = lambda v, like: split_tuple_assign(_assign(target, copy.deepcopy(v) if v is not None else None, like))
            else:  # expr: value discarded
                def emit(v, like):
                    if v is not None and has_call(v):
                        e = ast.Expr(value=copy.deepcopy(v))
                        ast.copy_location(e, like)
                        ast.fix_missing_locations(e)
                        return [e]
                    return []
            stmts, term = convert_returns(body, emit)
            if not term and mode != "expr":
                stmts.extend(emit(None, call))
            if mode == "nested-assign":
                stmts.append(_assign(target, res, call))
        for s in pre + stmts:
            ast.fix_missing_locations(s)
        self.applied.append((self.q, "inline", h.name))
        self.changed = True
        return pre + stmts, res


class _Replace(ast.NodeTransformer):
    def __init__(self, old, new):
        self.old, self.new = old, new

    def visit(self, node):
        if node is self.old:
            return ast.copy_location(copy.deepcopy(self.new), node)
        return self.generic_visit(node)


# ------------------------------------------------------------------------------------------- Inline Variable
PURE_CALLS = {"len", "int", "float", "str", "bool", "tuple", "list", "range", "abs", "min", "max", "sum", "sorted",
              "np.array", "np.prod", "np.arange", "np.asarray", "os.path.join", "os.path.basename", "os.path.split",
              "os.path.normpath", "np.unique", "np.argsort", "np.flip", "np.flatnonzero", "np.zeros", "np.ones",
              "np.transpose", "np.stack", "np.concatenate", "np.min", "np.max", "np.sum", "np.floor", "np.ceil", "np.abs",
              "np.sqrt", "np.repeat", "np.reshape", "np.where", "np.nonzero", "np.isclose", "np.all", "np.any",
              "np.linspace", "np.full", "np.zeros_like", "np.ones_like", "np.sort", "np.round", "os.path.dirname",
              "os.getcwd",
              # the repository's FAB-header accessors are functions of their string argument (inventory rule C14)
              "shape_from_header", "indices_from_header", "indexes_and_shape_from_header"}


def _call_name(c):
    try:
        return ast.unparse(c.func)
    except Exception:
        return ""


def is_pure(e):
    for x in ast.walk(e):
        if isinstance(x, ast.Call):
            nm = _call_name(x)
            if nm in PURE_CALLS:
                continue
            if isinstance(x.func, ast.Attribute) and x.func.attr in ("keys", "values", "items", "split", "strip",
                                                                     "replace", "copy", "decode", "encode", "index",
                                                                     "startswith", "endswith", "format", "join"):
                continue
            return False
        if isinstance(x, (ast.Await, ast.Yield, ast.YieldFrom, ast.NamedExpr)):
            return False
    return True


def _path_prefix(a, b):
    """access path text a is b or a prefix of b at a component boundary (`x.y` of `x.y[0]`, not `x` of `xy`)"""
    return a == b or (b.startswith(a) and b[len(a):len(a) + 1] in (".", "["))


def _paths(e):
    """names and attribute/subscript path texts read by e"""
    names, paths = set(), set()
    for x in ast.walk(e):
        if isinstance(x, ast.Name):
            names.add(x.id)
        elif isinstance(x, (ast.Attribute, ast.Subscript)):
            try:
                paths.add(ast.unparse(x))
            except Exception:
                pass
    return names, paths


class VarInliner:
    """forward-substitutes locals that the reference function does not have"""

    def __init__(self, fn, candidates):
        self.fn = fn
        self.cands = candidates
        self.applied = []

    def run(self):
        for _ in range(400):
            if not self._once():
                break
        return self.applied

    def _once(self):
        fn = self.fn
        bind_count = {}
        for x in ast.walk(fn):
            if isinstance(x, ast.Name) and isinstance(x.ctx, (ast.Store, ast.Del)):
                bind_count[x.id] = bind_count.get(x.id, 0) + 1
            elif isinstance(x, ast.ExceptHandler) and x.name:
                bind_count[x.name] = bind_count.get(x.name, 0) + 1
        for blk in self._blocks(fn):
            for i, s in enumerate(blk):
                if not (isinstance(s, ast.Assign) and len(s.targets) == 1 and isinstance(s.targets[0], ast.Name)):
                    continue
                v = s.targets[0].id
                if v not in self.cands or bind_count.get(v, 0) != 1:
                    continue
                if any(isinstance(x, ast.Name) and x.id == v for x in ast.walk(s.value)):
                    continue
                uses_total = sum(1 for x in ast.walk(fn) if isinstance(x, ast.Name) and x.id == v) - 1
                later = blk[i + 1:]
                uses_later = sum(1 for t in later for x in ast.walk(t) if isinstance(x, ast.Name) and x.id == v)
                if uses_total != uses_later or uses_total == 0:
                    continue
                # uses inside nested function scopes are left alone
                if any(isinstance(x, (ast.FunctionDef, ast.Lambda)) and any(
                        isinstance(y, ast.Name) and y.id == v for y in ast.walk(x)) for t in later for x in ast.walk(t)):
                    continue
                last = max(j for j, t in enumerate(later)
                           if any(isinstance(x, ast.Name) and x.id == v for x in ast.walk(t)))
                span = later[:last + 1]
                # an alias of an existing object (`a = self.x`, `t = cells['mins']`: a call-free attribute / subscript
                # chain) names the same object: changing it in place through the alias or through the chain is the same
                alias = _projectable(s.value) and not isinstance(s.value, ast.Name)
                if self._mutated(v, span) and not alias:
                    continue
                if not (is_pure(s.value) and self._undisturbed(s.value, span)):
                    # the single use is the first thing the next statement evaluates: nothing can come between
                    if uses_total != 1 or last != 0:
                        continue
                    nxt = later[0]
                    if not self._evaluated_first(nxt, v):
                        continue
                for t in span:
                    _SubstLoad(v, s.value).visit(t)
                    ast.fix_missing_locations(t)
                del blk[i]
                if not blk:
                    blk.append(ast.Pass())
                self.applied.append(v)
                return True
        return False

    def _blocks(self, node):
        for x in ast.walk(node):
            for fld in ("body", "orelse", "finalbody"):
                b = getattr(x, fld, None)
                if isinstance(b, list) and b and isinstance(b[0], ast.stmt):
                    yield b
            if isinstance(x, ast.ExceptHandler):
                pass

    MUTATORS = ("append", "extend", "insert", "pop", "remove", "clear", "sort", "reverse", "update",
                "setdefault", "popitem", "fill", "resize", "put", "itemset", "write", "seek", "read", "readline",
                "readlines", "close", "add", "discard")

    def _mutated(self, v, span):
        """the object bound to v is changed in place while v is live: then its identity matters and the
        binding cannot be replaced by re-evaluations of the expression"""
        for t in span:
            for x in ast.walk(t):
                if isinstance(x, (ast.Attribute, ast.Subscript)) and isinstance(x.ctx, (ast.Store, ast.Del)):
                    base = x
                    while isinstance(base, (ast.Attribute, ast.Subscript)):
                        base = base.value
                    if isinstance(base, ast.Name) and base.id == v:
                        return True
                if isinstance(x, ast.AugAssign):
                    base = x.target
                    while isinstance(base, (ast.Attribute, ast.Subscript)):
                        base = base.value
                    if isinstance(base, ast.Name) and base.id == v:
                        return True
                if isinstance(x, ast.Call) and isinstance(x.func, ast.Attribute) and x.func.attr in self.MUTATORS:
                    base = x.func.value
                    while isinstance(base, (ast.Attribute, ast.Subscript)):
                        base = base.value
                    if isinstance(base, ast.Name) and base.id == v:
                        return True
        return False

    def _undisturbed(self, e, span):
        names, paths = _paths(e)
        for t in span:
            for x in ast.walk(t):
                if isinstance(x, ast.Name) and isinstance(x.ctx, (ast.Store, ast.Del)) and x.id in names:
                    return False
                if isinstance(x, (ast.Attribute, ast.Subscript)) and isinstance(x.ctx, (ast.Store, ast.Del)):
                    try:
                        txt = ast.unparse(x)
                    except Exception:
                        return False
                    # a store *to* (a prefix of) a path the expression reads re-binds it; a store *under* such a path
                    # changes what it holds — but a store under the bare root (`self.other = ..`) touches neither
                    if any(_path_prefix(txt, p) or (("." in p or "[" in p) and _path_prefix(p, txt)) for p in paths):
                        return False
                    base = x
                    while isinstance(base, (ast.Attribute, ast.Subscript)):
                        base = base.value
                    if isinstance(base, ast.Name) and base.id in names and base.id != "self":
                        return False
                if isinstance(x, ast.AugAssign):
                    pass
                # a mutating method call on a name the expression reads
                if isinstance(x, ast.Call) and isinstance(x.func, ast.Attribute) and x.func.attr in (
                        "append", "extend", "insert", "pop", "remove", "clear", "sort", "reverse", "update",
                        "setdefault", "popitem", "fill", "resize"):
                    base = x.func.value
                    try:
                        txt = ast.unparse(base)
                    except Exception:
                        return False
                    if txt in names or any(_path_prefix(txt, p) for p in paths):
                        return False
        return True

    def _evaluated_first(self, stmt, v):
        """the single use of v in stmt is evaluated before any call of stmt completes (other than calls it is an
        argument of), and stmt is a simple statement or a hoistable header"""
        if isinstance(stmt, ast.Assign) and len(stmt.targets) == 1 and isinstance(stmt.targets[0], ast.Subscript) \
                and is_stable(stmt.value) and is_stable(stmt.targets[0].value) \
                and not any(isinstance(x, ast.Name) and x.id == v for x in ast.walk(stmt.value)) \
                and not any(isinstance(x, ast.Name) and x.id == v for x in ast.walk(stmt.targets[0].value)):
            # `a[<use>] = c` with c and a free of calls: the subscript expression is the only thing with an effect
            expr = stmt.targets[0].slice
            uses = sum(1 for x in ast.walk(expr) if isinstance(x, ast.Name) and x.id == v)
            if uses != 1:
                return False
            order = []

            def walk2(n, ok):
                if isinstance(n, _SCOPES):
                    for c in ast.iter_child_nodes(n):
                        walk2(c, False)
                    return
                for c in ast.iter_child_nodes(n):
                    walk2(c, ok)
                if isinstance(n, ast.Call):
                    order.append(("call", ok))
                if isinstance(n, ast.Name) and n.id == v:
                    order.append(("use", ok))
            walk2(expr, True)
            return bool(order) and order[0] == ("use", True)
        if isinstance(stmt, (ast.Assign, ast.AugAssign, ast.AnnAssign, ast.Expr, ast.Return)):
            expr = stmt.value
        elif isinstance(stmt, ast.If):
            expr = stmt.test
        elif isinstance(stmt, ast.For):
            expr = stmt.iter
        elif isinstance(stmt, ast.With) and stmt.items:
            expr = stmt.items[0].context_expr
        else:
            return False
        if expr is None:
            return False
        if sum(1 for x in ast.walk(stmt) if isinstance(x, ast.Name) and x.id == v) != \
                sum(1 for x in ast.walk(expr) if isinstance(x, ast.Name) and x.id == v):
            return False
        # position: no call completes before the use, and the use is not under a lambda/comprehension/arm
        order = []

        def walk(n, ok):
            if isinstance(n, _SCOPES):
                for c in ast.iter_child_nodes(n):
                    walk(c, False)
                return
            if isinstance(n, ast.IfExp):
                walk(n.test, ok); walk(n.body, False); walk(n.orelse, False)
                return
            if isinstance(n, ast.BoolOp):
                walk(n.values[0], ok)
                for x in n.values[1:]:
                    walk(x, False)
                return
            for c in ast.iter_child_nodes(n):
                walk(c, ok)
            if isinstance(n, ast.Call):
                order.append(("call", ok))
            if isinstance(n, ast.Name) and n.id == v:
                order.append(("use", ok))
        walk(expr, True)
        for kind, ok in order:
            if kind == "call":
                return False
            if kind == "use":
                return ok
        return False


class _SubstLoad(ast.NodeTransformer):
    def __init__(self, name, expr):
        self.name, self.expr = name, expr

    def visit_Name(self, n):
        if n.id == self.name and isinstance(n.ctx, ast.Load):
            return ast.copy_location(copy.deepcopy(self.expr), n)
        return n


# ------------------------------------------------------------------------------------------------ idioms
class _Idioms(ast.NodeTransformer):
    """library identities, applied everywhere (the reference tree included) so that the rules see one spelling:
         os.path.dirname(p)          == os.path.split(p)[0]
         os.path.split(p)[1] / [-1]  == os.path.basename(p)
         for k, v in D.items(): ...  == for k in D: ... with v read as D[k]   (D call-free, k/v/D not re-bound and D not
                                        stored to in the loop; dict iteration order is the same)"""

    def __init__(self):
        self.applied = []

    def visit_Call(self, n):
        self.generic_visit(n)
        # f(**{"k": v, ...}) with constant identifier keys  ==  f(k=v, ...)   (same keywords, same evaluation order)
        kws = []
        changed = False
        for k in n.keywords:
            if k.arg is None and isinstance(k.value, ast.Dict) and k.value.keys and all(
                    isinstance(x, ast.Constant) and isinstance(x.value, str) and x.value.isidentifier()
                    for x in k.value.keys):
                for kk, vv in zip(k.value.keys, k.value.values):
                    kws.append(ast.keyword(arg=kk.value, value=vv))
                changed = True
            else:
                kws.append(k)
        if changed and len({k.arg for k in kws if k.arg}) == len([k for k in kws if k.arg]):
            n.keywords = kws
            self.applied.append("dict-splat")
            ast.fix_missing_locations(n)
        try:
            f = ast.unparse(n.func)
        except Exception:
            return n
        # os.path.join(os.path.join(a, b), c)  ==  os.path.join(a, b, c)
        if f == "os.path.join" and n.args and not n.keywords and isinstance(n.args[0], ast.Call) \
                and not n.args[0].keywords and not any(isinstance(a, ast.Starred) for a in n.args[0].args):
            try:
                inner = ast.unparse(n.args[0].func)
            except Exception:
                inner = ""
            if inner == "os.path.join" and n.args[0].args:
                n.args = list(n.args[0].args) + list(n.args[1:])
                self.applied.append("join-flatten")
                ast.fix_missing_locations(n)
        syn = self._synonym(n, f)
        if syn is not None:
            return ast.fix_missing_locations(ast.copy_location(syn, n))
        if f == "os.path.dirname" and len(n.args) == 1 and not n.keywords:
            new = ast.Subscript(value=ast.Call(func=_dotted("os.path.split"), args=n.args, keywords=[]),
                                slice=ast.Constant(value=0), ctx=ast.Load())
            self.applied.append("dirname")
            return ast.fix_missing_locations(ast.copy_location(new, n))
        return n

    NP = ("np", "numpy")

    def _synonym(self, n, f):
        """library synonyms with the same meaning for every input the repository passes: one canonical spelling (the
        one the repository itself uses), so that rules and interpreters know a single form"""
        kw = {k.arg: k.value for k in n.keywords if k.arg}
        mod, _, name = f.rpartition(".")
        # tqdm(X, ...)  ->  X   (a progress bar around an iterable yields the same elements in the same order)
        if f in ("tqdm", "tqdm.tqdm") and n.args:
            self.applied.append("tqdm")
            return n.args[0]
        # map(f, X)  ->  (f(m) for m in X);  filter(p, X)  ->  (m for m in X if p(m));  list(<genexp>)  ->  [...]
        if f in ("map", "filter") and len(n.args) == 2 and not n.keywords and \
                isinstance(n.args[0], (ast.Name, ast.Attribute, ast.Lambda)):
            fn_, seq = n.args
            var = "_m"
            used = {x.id for x in ast.walk(n) if isinstance(x, ast.Name)}
            k = 0
            while var in used:
                k += 1
                var = f"_m{k}"
            if isinstance(fn_, ast.Lambda):
                la = fn_.args
                if len(la.args) != 1 or la.vararg or la.kwarg or la.kwonlyargs or la.defaults:
                    fn_ = None
                else:
                    applied_ = _SubstLoad(la.args[0].arg, ast.Name(id=var, ctx=ast.Load())).visit(copy.deepcopy(fn_.body))
            else:
                applied_ = ast.Call(func=fn_, args=[ast.Name(id=var, ctx=ast.Load())], keywords=[])
            if fn_ is not None:
                self.applied.append(f)
                if f == "map":
                    elt, ifs = applied_, []
                else:
                    elt, ifs = ast.Name(id=var, ctx=ast.Load()), [applied_]
                g = ast.GeneratorExp(elt=elt, generators=[ast.comprehension(
                    target=ast.Name(id=var, ctx=ast.Store()), iter=seq, ifs=ifs, is_async=0)])
                return self.visit(ast.fix_missing_locations(ast.copy_location(g, n)))
        if f == "list" and len(n.args) == 1 and not n.keywords and isinstance(n.args[0], ast.GeneratorExp):
            self.applied.append("list-genexp")
            return ast.ListComp(elt=n.args[0].elt, generators=n.args[0].generators)
        # dict(a=1, b=2)  ->  {'a': 1, 'b': 2};  dict(base, a=1)  ->  {**base, 'a': 1}
        if f == "dict" and len(n.args) <= 1 and all(k.arg for k in n.keywords) and (n.args or n.keywords) and \
                not any(isinstance(a, ast.Starred) for a in n.args):
            keys = ([None] if n.args else []) + [ast.Constant(value=k.arg) for k in n.keywords]
            vals = (list(n.args) if n.args else []) + [k.value for k in n.keywords]
            if not n.args or isinstance(n.args[0], (ast.Name, ast.Dict, ast.Attribute)):
                self.applied.append("dict-call")
                return ast.Dict(keys=keys, values=vals)
        # np.reshape(a, s, order=..)  ->  a.reshape(s, order=..)
        if mod in self.NP and name == "reshape" and len(n.args) == 2 and set(kw) <= {"order"}:
            self.applied.append("np.reshape")
            return ast.Call(func=ast.Attribute(value=n.args[0], attr="reshape", ctx=ast.Load()), args=[n.args[1]],
                            keywords=n.keywords)
        # np.fromfile(f, dtype=D, count=N)  ->  np.fromfile(f, D, N)
        if mod in self.NP and name == "fromfile" and n.args and kw and set(kw) <= {"dtype", "count"} and \
                len(n.args) + len(kw) <= 3 and not (len(n.args) == 1 and "count" in kw and "dtype" not in kw):
            args = list(n.args)
            if len(args) == 1 and "dtype" in kw:
                args.append(kw.pop("dtype"))
            if len(args) == 2 and "count" in kw:
                args.append(kw.pop("count"))
            if not kw:
                self.applied.append("fromfile-keywords")
                return ast.Call(func=n.func, args=args, keywords=[])
        # str(x)  ->  f'{x}'   (one spelling for "the text of x"; concatenations become f-strings too)
        if f == "str" and len(n.args) == 1 and not n.keywords and not isinstance(n.args[0], ast.Starred):
            self.applied.append("str-call")
            return ast.JoinedStr(values=[ast.FormattedValue(value=n.args[0], conversion=-1, format_spec=None)])
        # str(b, 'ascii')  ->  b.decode('ascii')
        if f == "str" and len(n.args) in (2, 3) and not n.keywords:
            self.applied.append("str-decode")
            return ast.Call(func=ast.Attribute(value=n.args[0], attr="decode", ctx=ast.Load()), args=n.args[1:], keywords=[])
        # next(x) / iter(x)  ->  x.__next__() / x.__iter__()
        if f in ("next", "iter") and len(n.args) == 1 and not n.keywords:
            self.applied.append(f)
            return ast.Call(func=ast.Attribute(value=n.args[0], attr=f"__{f}__", ctx=ast.Load()), args=[], keywords=[])
        # np.nonzero(c)  ->  np.where(c)
        if mod in self.NP and name == "nonzero" and len(n.args) == 1 and not n.keywords:
            self.applied.append("nonzero")
            return ast.Call(func=_dotted(f"{mod}.where"), args=n.args, keywords=[])
        # np.any(X) / np.all(X)  ->  X.any() / X.all()   (X an array expression)
        if mod in self.NP and name in ("any", "all") and len(n.args) == 1 and not n.keywords and \
                isinstance(n.args[0], (ast.Call, ast.Compare, ast.BinOp, ast.UnaryOp, ast.Subscript)):
            self.applied.append("np." + name)
            return ast.Call(func=ast.Attribute(value=n.args[0], attr=name, ctx=ast.Load()), args=[], keywords=[])
        # X.min(..) / X.max(..)  ->  np.min(X, ..) / np.max(X, ..)
        if isinstance(n.func, ast.Attribute) and n.func.attr in ("min", "max") and \
                not (isinstance(n.func.value, ast.Name) and n.func.value.id in ("np", "numpy", "math", "builtins")):
            self.applied.append("method-" + n.func.attr)
            return ast.Call(func=_dotted(f"np.{n.func.attr}"), args=[n.func.value] + list(n.args), keywords=n.keywords)
        # X.ravel(..).tobytes()  ->  X.flatten(..).tobytes()   (the bytes of the same element order)
        if isinstance(n.func, ast.Attribute) and n.func.attr in ("tobytes", "tofile") and isinstance(n.func.value, ast.Call) \
                and isinstance(n.func.value.func, ast.Attribute) and n.func.value.func.attr == "ravel":
            n.func.value.func.attr = "flatten"
            self.applied.append("ravel-bytes")
            return n
        # ' '.join(str(v) for v in [a, b, c]) / ' '.join([str(a), f'{b}', 'x'])  ->  f'{a} {b} x'
        if isinstance(n.func, ast.Attribute) and n.func.attr == "join" and isinstance(n.func.value, ast.Constant) \
                and isinstance(n.func.value.value, str) and len(n.args) == 1 and not n.keywords:
            a = n.args[0]
            elems = None
            if isinstance(a, (ast.ListComp, ast.GeneratorExp)) and len(a.generators) == 1 and not a.generators[0].ifs \
                    and isinstance(a.generators[0].target, ast.Name) and \
                    isinstance(a.generators[0].iter, (ast.List, ast.Tuple)) and 0 < len(a.generators[0].iter.elts) <= 8 \
                    and not any(isinstance(e, ast.Starred) for e in a.generators[0].iter.elts):
                v = a.generators[0].target.id
                elems = []
                for e in a.generators[0].iter.elts:
                    elems.append(_SubstLoad(v, e).visit(copy.deepcopy(a.elt)))
            elif isinstance(a, (ast.List, ast.Tuple)) and 0 < len(a.elts) <= 8 and all(
                    (isinstance(e, ast.Call) and isinstance(e.func, ast.Name) and e.func.id == "str" and len(e.args) == 1)
                    or isinstance(e, ast.JoinedStr) or (isinstance(e, ast.Constant) and isinstance(e.value, str))
                    for e in a.elts):
                elems = list(a.elts)
            if elems is not None:
                parts = []
                for i, e in enumerate(elems):
                    if i and n.func.value.value:
                        parts.append(ast.Constant(value=n.func.value.value))
                    if isinstance(e, ast.Call) and isinstance(e.func, ast.Name) and e.func.id == "str" and len(e.args) == 1 \
                            and not e.keywords:
                        parts.append(ast.FormattedValue(value=e.args[0], conversion=-1, format_spec=None))
                    elif isinstance(e, ast.JoinedStr):
                        parts.extend(e.values)
                    elif isinstance(e, ast.Constant) and isinstance(e.value, str):
                        parts.append(e)
                    else:
                        parts.append(ast.FormattedValue(value=e, conversion=-1, format_spec=None))
                # adjacent constants merge
                merged = []
                for x in parts:
                    if merged and isinstance(x, ast.Constant) and isinstance(merged[-1], ast.Constant):
                        merged[-1] = ast.Constant(value=merged[-1].value + x.value)
                    else:
                        merged.append(x)
                self.applied.append("join-literal")
                return ast.JoinedStr(values=merged)
        # itertools.repeat(x, n)  ->  [x] * n   (as an iterable)
        if f in ("itertools.repeat", "repeat") and len(n.args) == 2 and not n.keywords:
            self.applied.append("repeat")
            return ast.BinOp(left=ast.List(elts=[n.args[0]], ctx=ast.Load()), op=ast.Mult(), right=n.args[1])
        # '..{}..{:x}..'.format(a, b)  ->  f'..{a}..{b:x}..'
        if isinstance(n.func, ast.Attribute) and n.func.attr == "format" and isinstance(n.func.value, ast.Constant) \
                and isinstance(n.func.value.value, str) and not n.keywords and \
                not any(isinstance(a, ast.Starred) for a in n.args):
            import string
            parts, auto, ok = [], 0, True
            try:
                parsed = list(string.Formatter().parse(n.func.value.value))
            except ValueError:
                parsed = None
            for lit, field, spec, conv in parsed or []:
                if lit:
                    parts.append(ast.Constant(value=lit))
                if field is None:
                    continue
                if field == "":
                    idx = auto
                    auto += 1
                elif field.isdigit():
                    idx = int(field)
                else:
                    ok = False
                    break
                if idx >= len(n.args) or (spec and ("{" in spec)):
                    ok = False
                    break
                fv = ast.FormattedValue(value=copy.deepcopy(n.args[idx]), conversion=ord(conv) if conv else -1,
                                        format_spec=ast.JoinedStr(values=[ast.Constant(value=spec)]) if spec else None)
                parts.append(fv)
            if parsed is not None and ok:
                self.applied.append("str.format")
                return ast.JoinedStr(values=parts)
        return None

    @staticmethod
    def _is_strpiece(e):
        return (isinstance(e, ast.Constant) and isinstance(e.value, str)) or isinstance(e, ast.JoinedStr) or \
            (isinstance(e, ast.Call) and isinstance(e.func, ast.Name) and e.func.id == "str" and len(e.args) == 1
             and not e.keywords)

    def visit_BinOp(self, n):
        self.generic_visit(n)
        # 'a' + str(x) + f'{y}' + z  ->  f'a{x}{y}{z}'   (one piece is known to be a string, so `+` concatenates)
        if not isinstance(n.op, ast.Add):
            return n
        parts, stack = [], [n]
        while stack:
            e = stack.pop()
            if isinstance(e, ast.BinOp) and isinstance(e.op, ast.Add):
                stack.append(e.right)
                stack.append(e.left)
            else:
                parts.append(e)
        if len(parts) < 2 or not any(self._is_strpiece(e) for e in parts):
            return n
        if any(isinstance(e, (ast.List, ast.Tuple, ast.ListComp, ast.Dict)) or
               (isinstance(e, ast.Constant) and not isinstance(e.value, str)) for e in parts):
            return n
        vals = []
        for e in parts:
            if isinstance(e, ast.Constant):
                vals.append(e)
            elif isinstance(e, ast.JoinedStr):
                vals.extend(e.values)
            elif self._is_strpiece(e):
                vals.append(ast.FormattedValue(value=e.args[0], conversion=-1, format_spec=None))
            else:
                vals.append(ast.FormattedValue(value=e, conversion=-1, format_spec=None))
        merged = []
        for x in vals:
            if merged and isinstance(x, ast.Constant) and isinstance(merged[-1], ast.Constant):
                merged[-1] = ast.Constant(value=merged[-1].value + x.value)
            else:
                merged.append(x)
        self.applied.append("str-concat")
        return ast.fix_missing_locations(ast.copy_location(ast.JoinedStr(values=merged), n))

    def visit_Compare(self, n):
        self.generic_visit(n)
        # a <= b < c  ->  a <= b and b < c   (call-free middle operands: evaluated twice without effect)
        if len(n.ops) > 1 and not any(has_call(c) for c in n.comparators[:-1]):
            parts, left = [], n.left
            for op, right in zip(n.ops, n.comparators):
                parts.append(ast.Compare(left=copy.deepcopy(left), ops=[op], comparators=[right]))
                left = right
            self.applied.append("chained-compare")
            return ast.fix_missing_locations(ast.copy_location(ast.BoolOp(op=ast.And(), values=parts), n))
        return n

    def visit_Dict(self, n):
        self.generic_visit(n)
        # {**{'a': 1}, 'b': 2}  ->  {'a': 1, 'b': 2}   (later keys win in both forms; duplicates are left alone)
        if any(k is None and isinstance(v, ast.Dict) for k, v in zip(n.keys, n.values)):
            keys, vals = [], []
            for k, v in zip(n.keys, n.values):
                if k is None and isinstance(v, ast.Dict):
                    keys.extend(v.keys)
                    vals.extend(v.values)
                else:
                    keys.append(k)
                    vals.append(v)
            consts = [k.value for k in keys if isinstance(k, ast.Constant)]
            if len(consts) == len(set(consts)):
                self.applied.append("dict-splat-literal")
                n.keys, n.values = keys, vals
        return n

    def visit_Attribute(self, n):
        self.generic_visit(n)
        # os.SEEK_SET / SEEK_CUR / SEEK_END  ->  0 / 1 / 2
        if isinstance(n.ctx, ast.Load) and isinstance(n.value, ast.Name) and n.value.id in ("os", "io") and \
                n.attr in ("SEEK_SET", "SEEK_CUR", "SEEK_END"):
            self.applied.append("seek-const")
            return ast.copy_location(ast.Constant(value={"SEEK_SET": 0, "SEEK_CUR": 1, "SEEK_END": 2}[n.attr]), n)
        return n

    def visit_Subscript(self, n):
        self.generic_visit(n)
        # {"a": X, "b": Y}["a"]  ->  X   (value identity; the other entries must be free of calls)
        if isinstance(n.ctx, ast.Load) and isinstance(n.value, ast.Dict) and isinstance(n.slice, ast.Constant) \
                and n.value.keys and all(isinstance(k, ast.Constant) for k in n.value.keys):
            hits = [(k, v) for k, v in zip(n.value.keys, n.value.values) if k.value == n.slice.value]
            others = [v for k, v in zip(n.value.keys, n.value.values) if k.value != n.slice.value]
            if len(hits) == 1 and not any(has_call(o) for o in others):
                self.applied.append("dict-display-subscript")
                return ast.copy_location(hits[0][1], n)
        v = n.value
        if isinstance(n.ctx, ast.Load) and isinstance(v, ast.Call) and len(v.args) == 1 and not v.keywords:
            try:
                f = ast.unparse(v.func)
                idx = ast.literal_eval(ast.unparse(n.slice))
            except Exception:
                return n
            if f == "os.path.split" and idx in (1, -1):
                new = ast.Call(func=_dotted("os.path.basename"), args=v.args, keywords=[])
                self.applied.append("split[-1]")
                return ast.fix_missing_locations(ast.copy_location(new, n))
        return n

    def _items(self, target, it, scope_nodes):
        """(key target, dict expr, value name) if `target in it` is `k, v in D.items()` and the rewrite is valid"""
        if not (isinstance(it, ast.Call) and isinstance(it.func, ast.Attribute) and it.func.attr == "items"
                and not it.args and not it.keywords and isinstance(target, ast.Tuple) and len(target.elts) == 2
                and all(isinstance(e, ast.Name) for e in target.elts)):
            return None
        d = it.func.value
        if not is_stable(d):
            return None
        k, v = target.elts[0].id, target.elts[1].id
        if k == v or k == "_" :
            return None
        dnames, dpaths = _paths(d)
        try:
            dtxt = ast.unparse(d)
        except Exception:
            return None
        for node in scope_nodes:
            for x in ast.walk(node):
                if isinstance(x, ast.Name) and isinstance(x.ctx, (ast.Store, ast.Del)) and x.id in dnames | {k, v}:
                    return None
                if isinstance(x, (ast.Attribute, ast.Subscript)) and isinstance(x.ctx, (ast.Store, ast.Del)):
                    try:
                        t = ast.unparse(x)
                    except Exception:
                        return None
                    if t.startswith(dtxt) or dtxt.startswith(t):
                        return None
                if isinstance(x, ast.Call) and isinstance(x.func, ast.Attribute) and x.func.attr in VarInliner.MUTATORS:
                    try:
                        if ast.unparse(x.func.value) == dtxt:
                            return None
                    except Exception:
                        return None
        return k, d, v

    def visit_For(self, n):
        r = self._items(n.target, n.iter, n.body + n.orelse)
        if r:
            k, d, v = r
            sub = ast.Subscript(value=copy.deepcopy(d), slice=ast.Name(id=k, ctx=ast.Load()), ctx=ast.Load())
            n.target = ast.copy_location(ast.Name(id=k, ctx=ast.Store()), n.target)
            n.iter = ast.copy_location(copy.deepcopy(d), n.iter)
            for b in n.body + n.orelse:
                _SubstLoad(v, sub).visit(b)
            ast.fix_missing_locations(n)
            self.applied.append("items-loop")
        self.generic_visit(n)
        return n

    def _comp(self, n):
        for g in n.generators:
            scope = [x for x in ast.iter_child_nodes(n) if x is not g] + list(g.ifs)
            r = self._items(g.target, g.iter, [])
            if r:
                k, d, v = r
                if any(isinstance(x, ast.Name) and isinstance(x.ctx, ast.Store) and x.id in (k, v)
                       for g2 in n.generators if g2 is not g for x in ast.walk(g2.target)):
                    continue
                sub = ast.Subscript(value=copy.deepcopy(d), slice=ast.Name(id=k, ctx=ast.Load()), ctx=ast.Load())
                g.target = ast.copy_location(ast.Name(id=k, ctx=ast.Store()), g.target)
                g.iter = ast.copy_location(copy.deepcopy(d), g.iter)
                for part in scope:
                    _SubstLoad(v, sub).visit(part)
                ast.fix_missing_locations(n)
                self.applied.append("items-comp")
        self.generic_visit(n)
        return n

    visit_SetComp = visit_GeneratorExp = visit_DictComp = _comp

    def visit_ListComp(self, n):
        n = self._comp(n)
        # [x for x in S]  ->  list(S)   (identity comprehension: the same list)
        if isinstance(n, ast.ListComp) and len(n.generators) == 1:
            g = n.generators[0]
            if not g.ifs and not g.is_async and isinstance(g.target, ast.Name) and isinstance(n.elt, ast.Name) \
                    and n.elt.id == g.target.id:
                self.applied.append("identity-comp")
                return ast.copy_location(ast.Call(func=ast.Name(id="list", ctx=ast.Load()), args=[g.iter], keywords=[]), n)
        return n


def _dotted(text):
    parts = text.split(".")
    node = ast.Name(id=parts[0], ctx=ast.Load())
    for p in parts[1:]:
        node = ast.Attribute(value=node, attr=p, ctx=ast.Load())
    return node


def drop_dead_containers(tree):
    """locals that are only ever bound to a fresh empty container and filled (append / extend / [k] = ...) with
    call-free values, and never read: the statements that build them have no effect on anything and are removed"""
    applied = []
    for q, fn in alpha.functions_of(tree):
        params = {a.arg for a in ast.walk(fn.args) if isinstance(a, ast.arg)}
        uses = {}
        for x in ast.walk(fn):
            if isinstance(x, ast.Name):
                uses.setdefault(x.id, []).append(x)
        par = {}
        for x in ast.walk(fn):
            for c in ast.iter_child_nodes(x):
                par[c] = x
        dead = {}
        for name, occ in uses.items():
            if name in params or name == "_":
                continue
            stmts, ok = [], True
            for o in occ:
                p = par.get(o)
                if isinstance(o.ctx, ast.Store) and isinstance(p, ast.Assign) and len(p.targets) == 1 and p.targets[0] is o \
                        and (isinstance(p.value, (ast.List, ast.Dict)) and not (getattr(p.value, "elts", None) or getattr(p.value, "keys", None))):
                    stmts.append(p)
                elif isinstance(p, ast.Attribute) and p.value is o and p.attr in ("append", "extend") and \
                        isinstance(par.get(p), ast.Call) and par[p].func is p and isinstance(par.get(par[p]), ast.Expr) \
                        and not any(has_call(a) or any(isinstance(y, ast.Name) for y in ast.walk(a)) for a in par[p].args):
                    stmts.append(par[par[p]])
                else:
                    ok = False
                    break
            if ok and stmts and any(isinstance(s_, ast.Assign) for s_ in stmts):
                dead[name] = stmts
        if not dead:
            continue
        kill = {id(s_) for ss in dead.values() for s_ in ss}
        for x in ast.walk(fn):
            for fld in ("body", "orelse", "finalbody"):
                b = getattr(x, fld, None)
                if isinstance(b, list) and b and isinstance(b[0], ast.stmt):
                    nb = [s_ for s_ in b if id(s_) not in kill]
                    if len(nb) != len(b):
                        setattr(x, fld, nb or [ast.copy_location(ast.Pass(), b[0])])
        applied += [f"dead-container:{q}:{n}" for n in dead]
    return applied


def loops_to_comprehensions(tree):
    """`x = []` directly followed (same block) by `for v in IT: [t = E0;] x.append(E)` whose body is nothing else,
    with v a plain name not used after the loop  ->  `x = [E for v in IT]`   (same elements, same order; E0/E are
    evaluated once per element in both forms).  Applied to every tree, the reference included."""
    applied = []
    for q, fn in alpha.functions_of(tree):
        for blk in [b for x in ast.walk(fn) for f_ in ("body", "orelse", "finalbody")
                    for b in [getattr(x, f_, None)] if isinstance(b, list) and b and isinstance(b[0], ast.stmt)]:
            i = 0
            while i + 1 < len(blk):
                a, lp = blk[i], blk[i + 1]
                ok = isinstance(a, ast.Assign) and len(a.targets) == 1 and isinstance(a.targets[0], ast.Name) \
                    and isinstance(a.value, ast.List) and not a.value.elts \
                    and isinstance(lp, ast.For) and not lp.orelse and isinstance(lp.target, ast.Name) \
                    and 1 <= len(lp.body) <= 2
                if ok:
                    x, v = a.targets[0].id, lp.target.id
                    last = lp.body[-1]
                    ok = isinstance(last, ast.Expr) and isinstance(last.value, ast.Call) and \
                        isinstance(last.value.func, ast.Attribute) and last.value.func.attr == "append" and \
                        isinstance(last.value.func.value, ast.Name) and last.value.func.value.id == x and \
                        len(last.value.args) == 1 and not last.value.keywords
                if ok:
                    elt = last.value.args[0]
                    if len(lp.body) == 2:
                        t = lp.body[0]
                        ok = isinstance(t, ast.Assign) and len(t.targets) == 1 and isinstance(t.targets[0], ast.Name) \
                            and sum(1 for y in ast.walk(elt) if isinstance(y, ast.Name) and y.id == t.targets[0].id) == 1 \
                            and isinstance(elt, ast.Name) and \
                            sum(1 for y in ast.walk(fn) if isinstance(y, ast.Name) and y.id == t.targets[0].id) == 2
                        if ok:
                            elt = t.value
                if ok:
                    # x and v must not occur in IT / E in a way the comprehension scope changes; v unused afterwards
                    uses_x = any(isinstance(y, ast.Name) and y.id == x for y in ast.walk(elt)) or \
                        any(isinstance(y, ast.Name) and y.id == x for y in ast.walk(lp.iter))
                    later = sorted((y for y in ast.walk(fn) if isinstance(y, ast.Name) and y.id == v and
                                    (y.lineno, y.col_offset) > (getattr(lp, "end_lineno", lp.lineno), 0)),
                                   key=lambda y: (y.lineno, y.col_offset))
                    v_after = bool(later) and not isinstance(later[0].ctx, ast.Store)   # read before being re-bound
                    has_yield = any(isinstance(y, (ast.Yield, ast.YieldFrom, ast.Await, ast.NamedExpr)) for y in ast.walk(elt))
                    # per-file loops (`for f in np.unique(files)`) are anchors of the task / scatter-map rules and
                    # stay loops whatever their body looks like
                    perfile = any(isinstance(y, ast.Call) and _call_name(y) in ("np.unique", "numpy.unique")
                                  for y in ast.walk(lp.iter))
                    if not uses_x and not v_after and not has_yield and not _does_io(elt) and not perfile:
                        comp = ast.ListComp(elt=elt, generators=[ast.comprehension(target=lp.target, iter=lp.iter,
                                                                                    ifs=[], is_async=0)])
                        new = ast.Assign(targets=[ast.Name(id=x, ctx=ast.Store())], value=comp)
                        ast.copy_location(new, a)
                        ast.fix_missing_locations(new)
                        blk[i:i + 2] = [new]
                        applied.append(f"loop-to-comprehension:{q}:{x}")
                        continue
                i += 1
    return applied


IO_METHODS = ("readline", "read", "readlines", "write", "seek", "tell", "fromfile")


def _does_io(e):
    return any(isinstance(y, ast.Call) and ((isinstance(y.func, ast.Attribute) and y.func.attr in IO_METHODS) or
                                            (isinstance(y.func, ast.Name) and y.func.id in ("open", "print")))
               for y in ast.walk(e))


def io_comprehensions_to_loops(tree):
    """the converse for comprehensions that perform I/O per element: `x = [E for v in IT]` with a readline / write /
    seek in E  ->  `x = []; for v in IT: x.append(E)`.  File-position reasoning (line grammars, byte accounting) is
    done on statements, so I/O always appears in loop form, pure element-wise construction in comprehension form."""
    applied = []
    for q, fn in alpha.functions_of(tree):
        for blk in [b for x in ast.walk(fn) for f_ in ("body", "orelse", "finalbody")
                    for b in [getattr(x, f_, None)] if isinstance(b, list) and b and isinstance(b[0], ast.stmt)]:
            i = 0
            while i < len(blk):
                a = blk[i]
                if isinstance(a, ast.Assign) and len(a.targets) == 1 and isinstance(a.targets[0], (ast.Name, ast.Attribute)) \
                        and isinstance(a.value, ast.ListComp) and len(a.value.generators) == 1 \
                        and not a.value.generators[0].ifs \
                        and (_does_io(a.value.elt) or any(isinstance(y, ast.Call) and _call_name(y) in ("np.unique", "numpy.unique")
                                                          for y in ast.walk(a.value.generators[0].iter))) \
                        and not _does_io(a.value.generators[0].iter):
                    g = a.value.generators[0]
                    tgt = a.targets[0]
                    if isinstance(tgt, ast.Attribute):
                        # self.x = [E(io) for ..]  ->  t = []; for ..: t.append(E); self.x = t   (t: a temporary that
                        # takes the reference's name when it builds the attribute the same way)
                        used = {x.id for x in ast.walk(fn) if isinstance(x, ast.Name)}
                        k = 0
                        while f"_io{k}" in used:
                            k += 1
                        tname = f"_io{k}"
                    else:
                        tname = tgt.id
                    init = ast.Assign(targets=[ast.Name(id=tname, ctx=ast.Store())], value=ast.List(elts=[], ctx=ast.Load()))
                    call = ast.Expr(value=ast.Call(func=ast.Attribute(value=ast.Name(id=tname, ctx=ast.Load()),
                                                                      attr="append", ctx=ast.Load()),
                                                   args=[a.value.elt], keywords=[]))
                    loop = ast.For(target=g.target, iter=g.iter, body=[call], orelse=[])
                    new = [init, loop]
                    if isinstance(tgt, ast.Attribute):
                        new.append(ast.Assign(targets=[tgt], value=ast.Name(id=tname, ctx=ast.Load())))
                    for nnode in new:
                        ast.copy_location(nnode, a)
                        ast.fix_missing_locations(nnode)
                    blk[i:i + 1] = new
                    applied.append(f"io-comprehension-to-loop:{q}:{tname}")
                    i += len(new)
                    continue
                i += 1
    return applied


def hoist_embedded_reads(tree):
    """`w.write(<expr containing one h.readline()>)` where the read is not the whole argument  ->
    `t = h.readline(); w.write(<expr with t>)`: the line grammars read statements, and the argument is evaluated before
    the write happens either way"""
    applied = []
    for q, fn in alpha.functions_of(tree):
        used = {x.id for x in ast.walk(fn) if isinstance(x, ast.Name)}
        k = [0]
        for blk in [b for x in ast.walk(fn) for f_ in ("body", "orelse", "finalbody")
                    for b in [getattr(x, f_, None)] if isinstance(b, list) and b and isinstance(b[0], ast.stmt)]:
            i = 0
            while i < len(blk):
                st = blk[i]
                c = st.value if isinstance(st, ast.Expr) else None
                if isinstance(c, ast.Call) and isinstance(c.func, ast.Attribute) and c.func.attr == "write" and len(c.args) == 1:
                    reads = [x for x in ast.walk(c.args[0]) if isinstance(x, ast.Call) and isinstance(x.func, ast.Attribute)
                             and x.func.attr == "readline" and not x.args and not x.keywords]
                    others = [x for x in ast.walk(c.args[0]) if isinstance(x, ast.Call) and isinstance(x.func, ast.Attribute)
                              and x.func.attr in ("read", "readlines", "seek", "write", "tell")]
                    if len(reads) == 1 and not others and reads[0] is not c.args[0]:
                        while f"_rl{k[0]}" in used:
                            k[0] += 1
                        name = f"_rl{k[0]}"
                        used.add(name)
                        _Replace(reads[0], ast.Name(id=name, ctx=ast.Load())).visit(c)
                        asg = ast.Assign(targets=[ast.Name(id=name, ctx=ast.Store())], value=reads[0])
                        ast.copy_location(asg, st)
                        ast.fix_missing_locations(asg)
                        ast.fix_missing_locations(st)
                        blk[i:i] = [asg]
                        applied.append(f"hoist-read:{q}")
                        i += 2
                        continue
                i += 1
    return applied


def ifexp_to_if(tree):
    """`x = a if c else b` (statement level, one plain target)  ->  `if c: x = a` / `else: x = b`"""
    applied = []
    for x in ast.walk(tree):
        for fld in ("body", "orelse", "finalbody"):
            blk = getattr(x, fld, None)
            if not (isinstance(blk, list) and blk and isinstance(blk[0], ast.stmt)):
                continue
            for i, s in enumerate(blk):
                if isinstance(s, ast.Assign) and len(s.targets) == 1 and isinstance(s.value, ast.IfExp) and \
                        isinstance(s.targets[0], (ast.Name, ast.Attribute)):
                    t = s.targets[0]
                    a = ast.Assign(targets=[copy.deepcopy(t)], value=s.value.body)
                    b = ast.Assign(targets=[copy.deepcopy(t)], value=s.value.orelse)
                    new = ast.If(test=s.value.test, body=[ast.copy_location(a, s)], orelse=[ast.copy_location(b, s)])
                    blk[i] = ast.fix_missing_locations(ast.copy_location(new, s))
                    applied.append("ifexp")
    return applied


def update_to_stores(tree):
    """`d.update({'a': x, 'b': y})` as a statement  ->  `d['a'] = x; d['b'] = y` (constant keys, in order)"""
    applied = []
    for x in ast.walk(tree):
        for fld in ("body", "orelse", "finalbody"):
            blk = getattr(x, fld, None)
            if not (isinstance(blk, list) and blk and isinstance(blk[0], ast.stmt)):
                continue
            i = 0
            while i < len(blk):
                s = blk[i]
                c = s.value if isinstance(s, ast.Expr) else None
                if isinstance(c, ast.Call) and isinstance(c.func, ast.Attribute) and c.func.attr == "update" and \
                        isinstance(c.func.value, ast.Name) and len(c.args) == 1 and not c.keywords and \
                        isinstance(c.args[0], ast.Dict) and c.args[0].keys and \
                        all(isinstance(k, ast.Constant) for k in c.args[0].keys):
                    new = []
                    for k, v in zip(c.args[0].keys, c.args[0].values):
                        tgt = ast.Subscript(value=ast.Name(id=c.func.value.id, ctx=ast.Load()), slice=k, ctx=ast.Store())
                        new.append(ast.fix_missing_locations(ast.copy_location(ast.Assign(targets=[tgt], value=v), s)))
                    blk[i:i + 1] = new
                    applied.append("update-literal")
                    i += len(new)
                    continue
                i += 1
    return applied


def extend_to_appends(tree):
    """`xs.extend([a, b])` as a statement  ->  `xs.append(a); xs.append(b)` (a literal list of call-free or single
    elements: the same elements in the same order)"""
    applied = []
    for x in ast.walk(tree):
        for fld in ("body", "orelse", "finalbody"):
            blk = getattr(x, fld, None)
            if not (isinstance(blk, list) and blk and isinstance(blk[0], ast.stmt)):
                continue
            i = 0
            while i < len(blk):
                s = blk[i]
                c = s.value if isinstance(s, ast.Expr) else None
                if isinstance(c, ast.Call) and isinstance(c.func, ast.Attribute) and c.func.attr == "extend" and \
                        isinstance(c.func.value, ast.Name) and len(c.args) == 1 and not c.keywords and \
                        isinstance(c.args[0], (ast.List, ast.Tuple)) and c.args[0].elts and \
                        not any(isinstance(e, ast.Starred) for e in c.args[0].elts) and \
                        not any(isinstance(y, ast.Name) and y.id == c.func.value.id for e in c.args[0].elts for y in ast.walk(e)):
                    new = []
                    for e in c.args[0].elts:
                        call = ast.Call(func=ast.Attribute(value=ast.Name(id=c.func.value.id, ctx=ast.Load()), attr="append",
                                                           ctx=ast.Load()), args=[e], keywords=[])
                        new.append(ast.fix_missing_locations(ast.copy_location(ast.Expr(value=call), s)))
                    blk[i:i + 1] = new
                    applied.append("extend-literal")
                    i += len(new)
                    continue
                i += 1
    return applied


def negate(test):
    """logical negation in a readable normal form"""
    if isinstance(test, ast.UnaryOp) and isinstance(test.op, ast.Not):
        return test.operand
    if isinstance(test, ast.Compare) and len(test.ops) == 1:
        inv = {ast.Is: ast.IsNot, ast.IsNot: ast.Is, ast.In: ast.NotIn, ast.NotIn: ast.In, ast.Eq: ast.NotEq, ast.NotEq: ast.Eq}
        t = type(test.ops[0])
        if t in inv:
            return ast.Compare(left=test.left, ops=[inv[t]()], comparators=test.comparators)
    return ast.UnaryOp(op=ast.Not(), operand=test)


def continue_guards_to_ifs(tree):
    """in a loop body, `if C: continue` followed by the rest of the body  ->  `if not C: <rest>` (guard clause and
    nested form run the same statements under the same conditions)"""
    applied = []
    for x in ast.walk(tree):
        if not isinstance(x, (ast.For, ast.While)):
            continue
        changed = True
        while changed:
            changed = False
            stack = [x.body]
            while stack:
                blk = stack.pop()
                for i, st in enumerate(blk):
                    # tail duplication: `if C: T; continue` followed by `R; T`  ->  `if not C: R` then `T` once
                    if isinstance(st, ast.If) and not st.orelse and len(st.body) >= 2 and isinstance(st.body[-1], ast.Continue) \
                            and blk is x.body and len(blk) - (i + 1) > len(st.body) - 1:
                        k = len(st.body) - 1
                        if [ast.dump(a) for a in st.body[:-1]] == [ast.dump(b) for b in blk[-k:]]:
                            rest = blk[i + 1:-k]
                            new = ast.If(test=negate(st.test), body=rest, orelse=[])
                            ast.copy_location(new, st)
                            blk[i:] = [ast.fix_missing_locations(new)] + blk[-k:]
                            applied.append("continue-guard-tail")
                            changed = True
                            break
                    if isinstance(st, ast.If) and not st.orelse and len(st.body) == 1 and isinstance(st.body[0], ast.Continue) \
                            and i + 1 < len(blk):
                        new = ast.If(test=negate(st.test), body=blk[i + 1:], orelse=[])
                        ast.copy_location(new, st)
                        blk[i:] = [ast.fix_missing_locations(new)]
                        applied.append("continue-guard")
                        changed = True
                        break
                    # blocks in tail position of the loop body (nothing of this iteration runs after them): a
                    # `continue` there skips exactly the rest of that block
                    if i == len(blk) - 1:
                        if isinstance(st, ast.If):
                            stack.extend([st.body, st.orelse] if st.orelse else [st.body])
                        elif isinstance(st, ast.With):
                            stack.append(st.body)
                if changed:
                    break
    return applied


def _isinst(test):
    """isinstance(x, T) / isinstance(x, (T1, T2)) / isinstance(x, T1) or isinstance(x, T2) -> (subject text, [type texts])"""
    if isinstance(test, ast.BoolOp) and isinstance(test.op, ast.Or):
        subj, types = None, []
        for v in test.values:
            r = _isinst(v)
            if r is None or (subj is not None and r[0] != subj):
                return None
            subj = r[0]
            types += r[1]
        return subj, types
    if isinstance(test, ast.Call) and isinstance(test.func, ast.Name) and test.func.id == "isinstance" and len(test.args) == 2:
        t = test.args[1]
        elts = t.elts if isinstance(t, ast.Tuple) else [t]
        return ast.unparse(test.args[0]), [ast.unparse(e) for e in elts]
    return None


def hoisted_type_guards(tree):
    """`if not isinstance(x, (A, B, C)): raise E` at the head of a dispatch whose last branch is a plain `else`
         ->  the dispatch with `elif isinstance(x, <the types no branch tests>)` ... `else: raise E`
    (after the guard the `else` is reached exactly by the remaining types)"""
    applied = []
    for fn in ast.walk(tree):
        if not isinstance(fn, (ast.FunctionDef, ast.AsyncFunctionDef)):
            continue
        body = fn.body
        for i in range(len(body) - 1):
            g, ch = body[i], body[i + 1]
            if not (isinstance(g, ast.If) and not g.orelse and isinstance(g.test, ast.UnaryOp) and isinstance(g.test.op, ast.Not)
                    and g.body and isinstance(g.body[-1], ast.Raise) and isinstance(ch, ast.If)):
                continue
            gi = _isinst(g.test.operand)
            if gi is None:
                continue
            subj, union = gi
            tested, cur, ok = [], ch, True
            while True:
                ci = _isinst(cur.test)
                if ci is None or ci[0] != subj:
                    ok = False
                    break
                tested += ci[1]
                if len(cur.orelse) == 1 and isinstance(cur.orelse[0], ast.If):
                    cur = cur.orelse[0]
                    continue
                break
            if not ok or not cur.orelse:
                continue
            rest = [t for t in union if t not in tested]
            if not rest or any(t not in union for t in tested):
                continue
            tests = [ast.parse(f"isinstance({subj}, {t})", mode="eval").body for t in rest]
            test = tests[0] if len(tests) == 1 else ast.BoolOp(op=ast.Or(), values=tests)
            new = ast.If(test=test, body=cur.orelse, orelse=g.body)
            ast.copy_location(new, cur)
            cur.orelse = [ast.fix_missing_locations(new)]
            del body[i]
            applied.append("hoisted-type-guard")
            break
    return applied


def normalise_idioms(tree):
    t = _Idioms()
    t.visit(tree)
    ast.fix_missing_locations(tree)
    return t.applied + hoisted_type_guards(tree) + hoist_embedded_reads(tree) + ifexp_to_if(tree) + continue_guards_to_ifs(tree) + extend_to_appends(tree) + update_to_stores(tree) + drop_dead_containers(tree) + io_comprehensions_to_loops(tree) + loops_to_comprehensions(tree)


def _literal(e):
    if isinstance(e, ast.Constant) and isinstance(e.value, (int, float, str, bytes)) and not isinstance(e.value, bool):
        return True
    if isinstance(e, ast.UnaryOp) and isinstance(e.op, ast.USub) and _literal(e.operand):
        return True
    if isinstance(e, ast.Tuple) and e.elts and all(_literal(x) for x in e.elts):
        return True
    return False


STD_FROM = {"shutil", "re", "time", "sys", "pickle", "itertools", "glob", "multiprocessing", "argparse", "traceback"}


def normalise_imports(relpath, tree):
    """one spelling for imported names: numpy is `np`, `os.path.f` / `os.f` / `multiprocessing.Pool` / `shutil.f` … are
    written through their module, functions of the package's own modules by their bare name — whatever import form
    (`from os.path import join`, `import numpy as xp`, `from amr_kitchen import utils`) the module uses"""
    applied = []
    names = {}        # local name -> replacement expression (ast) for Load uses
    attr_strip = set()   # local names of package modules: X.f -> f
    need = {}         # canonical import statements to add: key -> ast stmt
    pkg_funcs = {}    # bare name -> module, for synthetic from-imports

    def dotted(text):
        return _dotted(text)

    for st in ast.walk(tree):
        if isinstance(st, ast.Import):
            for a in st.names:
                if a.name in ("numpy",) and (a.asname or a.name) != "np":
                    names[a.asname or a.name] = dotted("np")
                    need["np"] = ast.Import(names=[ast.alias(name="numpy", asname="np")])
                elif a.name == "os.path" and a.asname:
                    names[a.asname] = dotted("os.path")
                    need["os"] = ast.Import(names=[ast.alias(name="os")])
                elif a.name.startswith("amr_kitchen.") and a.asname:
                    attr_strip.add(a.asname)
                    pkg_funcs[a.asname] = a.name
        elif isinstance(st, ast.ImportFrom) and st.module is not None or isinstance(st, ast.ImportFrom) and st.level:
            mod = st.module or ""
            for a in st.names:
                local = a.asname or a.name
                if a.name == "*":
                    continue
                if mod == "numpy" and st.level == 0:
                    names[local] = dotted(f"np.{a.name}")
                    need["np"] = ast.Import(names=[ast.alias(name="numpy", asname="np")])
                elif mod == "os.path" and st.level == 0:
                    names[local] = dotted(f"os.path.{a.name}")
                    need["os"] = ast.Import(names=[ast.alias(name="os")])
                elif mod == "os" and st.level == 0:
                    names[local] = dotted(f"os.{a.name}")
                    need["os"] = ast.Import(names=[ast.alias(name="os")])
                elif mod in STD_FROM and st.level == 0:
                    names[local] = dotted(f"{mod}.{a.name}")
                    need[mod] = ast.Import(names=[ast.alias(name=mod)])
                elif (mod == "amr_kitchen" or (st.level and not mod)) and a.name in ("utils",):
                    attr_strip.add(local)
                    base = "amr_kitchen" if not st.level else ".".join(relpath[:-3].split("/")[:-st.level])
                    pkg_funcs[local] = f"{base}.{a.name}"
    if not names and not attr_strip:
        return applied
    # names re-bound anywhere in the module as ordinary variables are left alone
    rebound = {x.id for x in ast.walk(tree) if isinstance(x, ast.Name) and isinstance(x.ctx, (ast.Store, ast.Del))} | \
        {a.arg for x in ast.walk(tree) if isinstance(x, ast.arguments) for a in x.args + x.kwonlyargs + x.posonlyargs}
    names = {k: v for k, v in names.items() if k not in rebound}
    attr_strip = {k for k in attr_strip if k not in rebound}
    used_pkg = {}

    class T(ast.NodeTransformer):
        def visit_Attribute(self, n):
            self.generic_visit(n)
            if isinstance(n.value, ast.Name) and n.value.id in attr_strip and isinstance(n.ctx, ast.Load):
                used_pkg.setdefault(pkg_funcs[n.value.id], set()).add(n.attr)
                return ast.copy_location(ast.Name(id=n.attr, ctx=ast.Load()), n)
            return n

        def visit_Name(self, n):
            if isinstance(n.ctx, ast.Load) and n.id in names:
                return ast.copy_location(copy.deepcopy(names[n.id]), n)
            return n
    for st in tree.body:
        if not isinstance(st, (ast.Import, ast.ImportFrom)):
            T().visit(st)
    have = set()
    for st in tree.body:
        if isinstance(st, ast.Import):
            for a in st.names:
                have.add(a.asname or a.name.split(".")[0])
    k = 1 if tree.body and isinstance(tree.body[0], ast.Expr) and isinstance(tree.body[0].value, ast.Constant) else 0
    for key, stmt in need.items():
        if key not in have:
            tree.body.insert(k, stmt)
    for mod, fs in used_pkg.items():
        tree.body.insert(k, ast.ImportFrom(module=mod, names=[ast.alias(name=f) for f in sorted(fs)], level=0))
    ast.fix_missing_locations(tree)
    if names or used_pkg:
        applied.append(("<module>", "imports", ",".join(sorted(list(names) + list(attr_strip)))))
    return applied


EXTERNAL_CONSTS = {}     # modname -> {NAME: literal node}, filled by model.Program before the modules are built


def _new_constants(relpath, tree):
    ref = alpha.load_ref()
    if relpath not in (ref.get("__globals__") or {}):
        return {}
    known = set(ref["__globals__"][relpath])
    stores = {}
    for x in ast.walk(tree):
        if isinstance(x, ast.Name) and isinstance(x.ctx, (ast.Store, ast.Del)):
            stores[x.id] = stores.get(x.id, 0) + 1
        elif isinstance(x, ast.Global):
            for nm in x.names:
                stores[nm] = stores.get(nm, 0) + 2
        elif isinstance(x, (ast.arg,)):
            stores[x.arg] = stores.get(x.arg, 0) + 1
        elif isinstance(x, ast.ExceptHandler) and x.name:
            stores[x.name] = stores.get(x.name, 0) + 1
    consts = {}
    for st in list(tree.body):
        if isinstance(st, ast.Assign) and len(st.targets) == 1 and isinstance(st.targets[0], ast.Name) and _literal(st.value):
            nm = st.targets[0].id
            if nm not in known and stores.get(nm, 0) == 1 and nm.upper() == nm:
                consts[nm] = st
    return consts


CALL_FACTS = {}          # callee simple name -> {"kw": set, "maxpos": int, "star": bool}; filled by model.Program


def collect_call_facts(tree):
    for c in ast.walk(tree):
        if not isinstance(c, ast.Call):
            continue
        f = c.func
        name = f.attr if isinstance(f, ast.Attribute) else (f.id if isinstance(f, ast.Name) else None)
        if name is None:
            continue
        d = CALL_FACTS.setdefault(name, {"kw": set(), "maxpos": 0, "star": False})
        d["maxpos"] = max(d["maxpos"], len([a for a in c.args if not isinstance(a, ast.Starred)]))
        if any(isinstance(a, ast.Starred) for a in c.args) or any(k.arg is None for k in c.keywords):
            d["star"] = True
        d["kw"].update(k.arg for k in c.keywords if k.arg)
        # functions handed to pool primitives / map are called with one positional argument
        for a in c.args:
            if isinstance(a, (ast.Name, ast.Attribute)):
                n2 = a.attr if isinstance(a, ast.Attribute) else a.id
                CALL_FACTS.setdefault(n2, {"kw": set(), "maxpos": 0, "star": False})
                CALL_FACTS[n2]["maxpos"] = max(CALL_FACTS[n2]["maxpos"], 1)


def default_unpassed_params(relpath, tree):
    """a parameter with a default that the reference function does not have and that NO call in the package passes
    (by keyword, by position, through * / **) holds its default in every execution the package performs: it is read
    as a local bound to that default (`if p is None: p = E` as the first thing done with it becomes `p = E`).  The
    interface extension itself is outside the properties, which are stated for the calls the package makes."""
    ref = alpha.load_ref().get(relpath)
    applied = []
    if not ref:
        return applied
    for q, fn in alpha.functions_of(tree):
        r = ref.get(q)
        if r is None:
            continue
        a = fn.args
        if a.vararg or a.kwarg or a.posonlyargs:
            continue
        pos = a.args
        ndef = len(a.defaults)
        name = q.split(".")[-1]
        cname = q.split(".")[0] if name == "__init__" and "." in q else name
        facts = [CALL_FACTS.get(cname)] if cname in CALL_FACTS else []
        if name == "__init__":
            facts.append(CALL_FACTS.get("__init__"))        # super().__init__(...)
        facts = [f for f in facts if f]
        offset = 1 if (pos and pos[0].arg in ("self", "cls")) else 0
        drop = []
        for k in range(len(pos) - 1, len(pos) - ndef - 1, -1):
            p = pos[k]
            if p.arg in r["params"]:
                break               # only trailing new parameters (positions of the others are unchanged)
            idx = k - offset
            passed = any(p.arg in f["kw"] or f["star"] or f["maxpos"] > idx for f in facts)
            if passed:
                break
            drop.append((k, p, a.defaults[k - (len(pos) - ndef)]))
        kw_drop = []
        for p, d in zip(list(a.kwonlyargs), list(a.kw_defaults)):
            if d is not None and p.arg not in r["params"] and not any(p.arg in f["kw"] or f["star"] for f in facts):
                kw_drop.append((p, d))
        if not drop and not kw_drop:
            continue
        inits = []
        for k, p, d in drop:
            # the dropped parameters are a trailing run, taken from the end: always the last one
            a.args.pop()
            a.defaults.pop()
            inits.append((p.arg, d))
        for p, d in kw_drop:
            i = a.kwonlyargs.index(p)
            del a.kwonlyargs[i]
            del a.kw_defaults[i]
            inits.append((p.arg, d))
        for pname, d in inits:
            # `if p is None: p = E` (no else), the only store of p  ->  `p = E`
            stores = [x for x in ast.walk(fn) if isinstance(x, ast.Name) and x.id == pname and isinstance(x.ctx, ast.Store)]
            done = False
            if isinstance(d, ast.Constant) and d.value is None and len(stores) == 1:
                for parent in ast.walk(fn):
                    for field in ("body", "orelse", "finalbody"):
                        blk = getattr(parent, field, None)
                        if not isinstance(blk, list):
                            continue
                        for i, st in enumerate(blk):
                            if isinstance(st, ast.If) and not st.orelse and len(st.body) == 1 and isinstance(st.body[0], ast.Assign) \
                                    and ast.unparse(st.test) == f"{pname} is None" and len(st.body[0].targets) == 1 \
                                    and isinstance(st.body[0].targets[0], ast.Name) and st.body[0].targets[0].id == pname:
                                earlier = [x for x in ast.walk(fn) if isinstance(x, ast.Name) and x.id == pname
                                           and isinstance(x.ctx, ast.Load) and getattr(x, "lineno", 0) < st.lineno]
                                if not earlier:
                                    blk[i] = st.body[0]
                                    done = True
            if not done:
                init = ast.Assign(targets=[ast.Name(id=pname, ctx=ast.Store())], value=d)
                at = 1 if (fn.body and isinstance(fn.body[0], ast.Expr) and isinstance(fn.body[0].value, ast.Constant)) else 0
                ast.copy_location(init, fn.body[0])
                fn.body.insert(at, ast.fix_missing_locations(init))
            applied.append((q, "unpassed-default", pname))
    return applied


def collect_new_constants(relpath, modname, tree):
    c = _new_constants(relpath, tree)
    if c:
        EXTERNAL_CONSTS[modname] = {k: v.value for k, v in c.items()}


def inline_imported_constants(relpath, tree):
    """`from pkg.mod import CONST` of a new named constant of another module of the package: read as its literal"""
    applied = []
    for st in list(tree.body):
        if not isinstance(st, ast.ImportFrom) or not st.module:
            continue
        mods = [m for m in EXTERNAL_CONSTS if m == st.module or m.endswith("." + st.module.lstrip("."))]
        if st.level:
            base = relpath[:-3].replace("/", ".").split(".")
            base = base[:len(base) - st.level]
            mods = [m for m in EXTERNAL_CONSTS if m == ".".join(base + [st.module])]
        if len(mods) != 1:
            continue
        table = EXTERNAL_CONSTS[mods[0]]
        keep = []
        for a in st.names:
            if a.name in table:
                local = a.asname or a.name
                if any(isinstance(x, ast.Name) and x.id == local and isinstance(x.ctx, (ast.Store, ast.Del))
                       for x in ast.walk(tree)):
                    keep.append(a)
                    continue
                for x in tree.body:
                    if x is not st:
                        _SubstLoad(local, table[a.name]).visit(x)
                applied.append(("<module>", "inline-imported-const", local))
            else:
                keep.append(a)
        if keep:
            st.names = keep
        else:
            tree.body.remove(st)
    ast.fix_missing_locations(tree)
    return applied


def inline_new_constants(relpath, tree):
    """module-level `NAME = <literal>` that the reference module does not have, bound once and never re-bound, is a
    named constant: every read of NAME in the module's functions is the literal (Replace Magic Number, undone)"""
    ref = alpha.load_ref()
    known = set((ref.get("__globals__") or {}).get(relpath) or ())
    if relpath not in (ref.get("__globals__") or {}):
        return []
    pre = inline_imported_constants(relpath, tree)
    stores = {}
    for x in ast.walk(tree):
        if isinstance(x, ast.Name) and isinstance(x.ctx, (ast.Store, ast.Del)):
            stores[x.id] = stores.get(x.id, 0) + 1
        elif isinstance(x, ast.Global):
            for nm in x.names:
                stores[nm] = stores.get(nm, 0) + 2
        elif isinstance(x, (ast.arg,)):
            stores[x.arg] = stores.get(x.arg, 0) + 1
        elif isinstance(x, ast.ExceptHandler) and x.name:
            stores[x.name] = stores.get(x.name, 0) + 1
    consts = {}
    for st in list(tree.body):
        if isinstance(st, ast.Assign) and len(st.targets) == 1 and isinstance(st.targets[0], ast.Name) and _literal(st.value):
            nm = st.targets[0].id
            if nm not in known and stores.get(nm, 0) == 1 and nm.upper() == nm:
                consts[nm] = st
    if not consts:
        return pre
    applied = list(pre)
    for nm, st in consts.items():
        for x in tree.body:
            if x is st:
                continue
            _SubstLoad(nm, st.value).visit(x)
        tree.body.remove(st)
        applied.append(("<module>", "inline-const", nm))
    ast.fix_missing_locations(tree)
    return applied


# ------------------------------------------------------------------------------------------------ entry point
def canonicalise(relpath, tree):
    """returns (applied, refused) for the evidence"""
    ref = alpha.load_ref().get(relpath)
    if not ref:
        return [], {}
    inl = Inliner(tree, set(ref))
    applied = list(inl.run())
    return applied, inl.refused


def _bind_counts(fn):
    c = {}
    for x in ast.walk(fn):
        if isinstance(x, ast.Name) and isinstance(x.ctx, (ast.Store, ast.Del)):
            c[x.id] = c.get(x.id, 0) + 1
    return c


def _projectable(e):
    """a value whose elements can be named by subscripting it: a name / attribute / constant-subscript chain"""
    while isinstance(e, (ast.Attribute, ast.Subscript)):
        if isinstance(e, ast.Subscript) and has_call(e.slice):
            return False
        e = e.value
    return isinstance(e, ast.Name)


def split_disjoint_bindings(fn, cands):
    """a new local bound by several plain assignments whose uses are disjoint (each load lies after exactly one of the
    bindings, in the same block tail, and no tail re-binds the name) is one name for several independent variables:
    every binding gets its own name so that the Inline Variable pass can treat each on its own"""
    applied = []
    for v in sorted(cands):
        stores = [x for x in ast.walk(fn) if isinstance(x, ast.Name) and x.id == v and isinstance(x.ctx, (ast.Store, ast.Del))]
        if len(stores) < 2:
            continue
        binds = []
        for x in ast.walk(fn):
            for fld in ("body", "orelse", "finalbody"):
                blk = getattr(x, fld, None)
                if isinstance(blk, list) and blk and isinstance(blk[0], ast.stmt):
                    for i, st in enumerate(blk):
                        if isinstance(st, ast.Assign) and len(st.targets) == 1 and isinstance(st.targets[0], ast.Name) \
                                and st.targets[0].id == v:
                            binds.append((blk, i, st))
        if len(binds) != len(stores):
            continue
        loads_all = {id(x) for x in ast.walk(fn) if isinstance(x, ast.Name) and x.id == v and isinstance(x.ctx, ast.Load)}
        groups, ok, seen = [], True, set()
        for blk, i, st in binds:
            if any(isinstance(y, ast.Name) and y.id == v for y in ast.walk(st.value)):
                ok = False
                break
            tail = blk[i + 1:]
            if any(isinstance(y, ast.Name) and y.id == v and isinstance(y.ctx, (ast.Store, ast.Del))
                   for t in tail for y in ast.walk(t)):
                ok = False
                break
            mine = [y for t in tail for y in ast.walk(t) if isinstance(y, ast.Name) and y.id == v]
            if any(id(y) in seen for y in mine):
                ok = False
                break
            seen |= {id(y) for y in mine}
            groups.append((st, mine))
        if not ok or seen != loads_all:
            continue
        for k, (st, mine) in enumerate(groups):
            nm = f"{v}__{k}"
            st.targets[0].id = nm
            for y in mine:
                y.id = nm
        applied.append(v)
    return applied


def coalesce_aliases(fn, cands):
    """`y = <value>` ... `x = y` where y is a new local bound once, x is bound only by that alias in the same block,
    y is not read after the alias and x is not read between the two: y *is* x — rename it and drop the alias (what
    inlining a helper that fills and returns its buffer leaves behind)"""
    applied = []
    again = True
    while again:
        again = False
        counts = _bind_counts(fn)
        for blk in VarInliner(fn, cands)._blocks(fn):
            for j, st in enumerate(blk):
                if not (isinstance(st, ast.Assign) and len(st.targets) == 1 and isinstance(st.targets[0], ast.Name)
                        and isinstance(st.value, ast.Name)):
                    continue
                x, y = st.targets[0].id, st.value.id
                if y not in cands or x == y or counts.get(y, 0) != 1 or counts.get(x, 0) != 1:
                    continue
                src = [i for i, t in enumerate(blk[:j]) if isinstance(t, ast.Assign) and len(t.targets) == 1
                       and isinstance(t.targets[0], ast.Name) and t.targets[0].id == y]
                if len(src) != 1:
                    continue
                i = src[0]
                between = blk[i:j]
                if any(isinstance(n, ast.Name) and n.id == x for t in between for n in ast.walk(t)):
                    continue
                inside = {id(n) for t in blk[i:j + 1] for n in ast.walk(t)}
                if any(isinstance(n, ast.Name) and n.id == y and id(n) not in inside for n in ast.walk(fn)):
                    continue
                for t in between:
                    for n in ast.walk(t):
                        if isinstance(n, ast.Name) and n.id == y:
                            n.id = x
                del blk[j]
                applied.append(f"{y}->{x}")
                again = True
                break
            if again:
                break
    return applied


def _parent_of(root, node):
    for p in ast.walk(root):
        for c in ast.iter_child_nodes(p):
            if c is node:
                return p
    return None


def publish_fresh_containers(fn, cands):
    """`a = {}` (a new local, a fresh empty container) followed — before any other use of a — by `CHAIN = a` in the same
    block: from then on a *is* CHAIN (the same object).  The binding is dropped, CHAIN receives the fresh container and
    every later `a` reads CHAIN (Y04: `mins_by_field = {}; lvcells['mins'] = mins_by_field; mins_by_field[f] = v`)"""
    applied = []
    again = True
    while again:
        again = False
        counts = _bind_counts(fn)
        for blk in VarInliner(fn, cands)._blocks(fn):
            for i, st in enumerate(blk):
                if not (isinstance(st, ast.Assign) and len(st.targets) == 1 and isinstance(st.targets[0], ast.Name)):
                    continue
                y = st.targets[0].id
                v = st.value
                fresh = (isinstance(v, (ast.Dict, ast.List)) and not (v.keys if isinstance(v, ast.Dict) else v.elts)) or \
                    (isinstance(v, ast.Call) and isinstance(v.func, ast.Name) and v.func.id in ("dict", "list") and not v.args
                     and not v.keywords)
                if y not in cands or counts.get(y, 0) != 1 or not fresh:
                    continue
                j = None
                for k in range(i + 1, len(blk)):
                    t = blk[k]
                    if isinstance(t, ast.Assign) and len(t.targets) == 1 and isinstance(t.value, ast.Name) and t.value.id == y \
                            and isinstance(t.targets[0], (ast.Attribute, ast.Subscript)) and _projectable(t.targets[0]):
                        j = k
                        break
                    if any(isinstance(x, ast.Name) and x.id == y for x in ast.walk(t)):
                        break
                if j is None:
                    continue
                chain = blk[j].targets[0]
                ctext = ast.unparse(chain)
                # the chain is not re-bound afterwards, nor are the names it is built from
                later = [x for t in blk[j + 1:] for x in ast.walk(t)]
                roots = {x.id for x in ast.walk(chain) if isinstance(x, ast.Name)}
                if any(isinstance(x, (ast.Attribute, ast.Subscript)) and isinstance(x.ctx, (ast.Store, ast.Del)) and
                       ast.unparse(x) == ctext for x in later) or \
                        any(isinstance(x, ast.Name) and isinstance(x.ctx, (ast.Store, ast.Del)) and x.id in roots for x in later):
                    continue
                inside = {id(x) for t in blk[i:] for x in ast.walk(t)}
                if any(isinstance(x, ast.Name) and x.id == y and id(x) not in inside for x in ast.walk(fn)):
                    continue
                load = copy.deepcopy(chain)
                for x in ast.walk(load):
                    if hasattr(x, "ctx"):
                        x.ctx = ast.Load()
                blk[j].value = v
                for t in blk[j + 1:]:
                    _SubstLoad(y, load).visit(t)
                    ast.fix_missing_locations(t)
                del blk[i]
                applied.append(y)
                again = True
                break
            if again:
                break
    return applied


def untuple_new_locals(fn, cands):
    """tuple bindings of locals the reference function does not have are taken apart so that the Inline Variable pass
    can remove them:  `a, b = x, y` -> `a = x; b = y`;  `a, b = v` -> `a = v[0]; b = v[1]`;  `for a, b in it:` ->
    `for t in it:` with a, b read as t[0], t[1] (not for zip/enumerate/items, whose elements the rules name).  The
    only difference is which exception a wrong-length sequence raises."""
    applied = []
    counts = _bind_counts(fn)
    fresh = [0]

    def new_names(ts):
        return all(isinstance(t, ast.Name) and (t.id in cands or t.id.startswith("_ut")) and
                   counts.get(t.id, 0 if not t.id.startswith("_ut") else 1) == 1 for t in ts)

    def loop_local(t):
        """a new name bound only as a loop target, every read of it inside a loop that binds it"""
        if not (isinstance(t, ast.Name) and t.id in cands):
            return False
        binders = [n for n in ast.walk(fn) if isinstance(n, ast.For) and
                   any(isinstance(x, ast.Name) and x.id == t.id for x in ast.walk(n.target))]
        if len(binders) != _bind_counts(fn).get(t.id, 0):
            return False
        covered = {id(x) for b in binders for x in ast.walk(b)}
        return all(id(x) in covered for x in ast.walk(fn) if isinstance(x, ast.Name) and x.id == t.id)

    def comp_len(x):
        """N when x is a local bound once to `[... for _ in range(N)]` (no filter) and never resized"""
        if not isinstance(x, ast.Name) or counts.get(x.id, 0) != 1:
            return None
        val = None
        for n in ast.walk(fn):
            if isinstance(n, ast.Assign) and len(n.targets) == 1 and isinstance(n.targets[0], ast.Name) and n.targets[0].id == x.id:
                val = n.value
            if isinstance(n, ast.Call) and isinstance(n.func, ast.Attribute) and isinstance(n.func.value, ast.Name) and \
                    n.func.value.id == x.id and n.func.attr in ("append", "extend", "insert", "pop", "remove", "clear"):
                return None
        if isinstance(val, ast.ListComp) and len(val.generators) == 1 and not val.generators[0].ifs and \
                isinstance(val.generators[0].iter, ast.Call) and _call_name(val.generators[0].iter) == "range" and \
                len(val.generators[0].iter.args) == 1:
            return copy.deepcopy(val.generators[0].iter.args[0])
        return None

    def length_of(a):
        n = comp_len(a)
        if n is not None:
            return n
        return ast.Call(func=ast.Name(id="len", ctx=ast.Load()), args=[copy.deepcopy(a)], keywords=[])

    for x in ast.walk(fn):
        for fld in ("body", "orelse", "finalbody"):
            blk = getattr(x, fld, None)
            if not (isinstance(blk, list) and blk and isinstance(blk[0], ast.stmt)):
                continue
            i = 0
            while i < len(blk):
                s = blk[i]
                if isinstance(s, ast.Assign) and len(s.targets) == 1 and isinstance(s.targets[0], (ast.Tuple, ast.List)) \
                        and new_names(s.targets[0].elts):
                    ts = s.targets[0].elts
                    if isinstance(s.value, (ast.Tuple, ast.List)):
                        parts = split_tuple_assign(s)
                        if len(parts) != 1 or parts[0] is not s:
                            blk[i:i + 1] = parts
                            applied.append(",".join(t.id for t in ts))
                            i += len(parts)
                            continue
                    elif _projectable(s.value):
                        parts = []
                        for k, t in enumerate(ts):
                            v = ast.Subscript(value=copy.deepcopy(s.value), slice=ast.Constant(value=k), ctx=ast.Load())
                            parts.append(_assign(t, v, s))
                        blk[i:i + 1] = parts
                        applied.append(",".join(t.id for t in ts))
                        i += len(parts)
                        continue
                    elif isinstance(s.value, ast.Call):
                        # a, b = f(x)  ->  t = f(x); a = t[0]; b = t[1]   (t takes the reference's name, if it has one)
                        name = f"_ut{fresh[0]}"
                        fresh[0] += 1
                        parts = [_assign(ast.Name(id=name, ctx=ast.Store()), s.value, s)]
                        for k, t in enumerate(ts):
                            v = ast.Subscript(value=ast.Name(id=name, ctx=ast.Load()), slice=ast.Constant(value=k), ctx=ast.Load())
                            parts.append(_assign(t, v, s))
                        blk[i:i + 1] = parts
                        applied.append(",".join(t.id for t in ts))
                        i += len(parts)
                        continue
                if isinstance(s, ast.For) and isinstance(s.target, (ast.Tuple, ast.List)):
                    # a nested tuple in a loop target (for i, (a, b, c) in zip(..)) becomes one name read by position
                    for k, e in enumerate(s.target.elts):
                        if isinstance(e, (ast.Tuple, ast.List)) and new_names(e.elts):
                            name = f"_ut{fresh[0]}"
                            fresh[0] += 1
                            for j, t in enumerate(e.elts):
                                v = ast.Subscript(value=ast.Name(id=name, ctx=ast.Load()), slice=ast.Constant(value=j), ctx=ast.Load())
                                for b in s.body + s.orelse:
                                    _SubstLoad(t.id, v).visit(b)
                            applied.append(",".join(t.id for t in e.elts))
                            s.target.elts[k] = ast.copy_location(ast.Name(id=name, ctx=ast.Store()), e)
                            ast.fix_missing_locations(s)
                if isinstance(s, ast.For) and isinstance(s.target, (ast.Tuple, ast.List)) and len(s.target.elts) == 2 and \
                        isinstance(s.iter, ast.Call) and _call_name(s.iter) == "enumerate" and len(s.iter.args) == 1 and \
                        not s.iter.keywords and isinstance(s.target.elts[0], ast.Name) and \
                        (new_names([s.target.elts[1]]) or loop_local(s.target.elts[1])) and not s.orelse:
                    inner = s.iter.args[0]
                    iv, xv = s.target.elts[0].id, s.target.elts[1].id
                    if _projectable(inner):
                        # for i, x in enumerate(X)  ->  for i in range(len(X)) with x read as X[i]
                        v = ast.Subscript(value=copy.deepcopy(inner), slice=ast.Name(id=iv, ctx=ast.Load()), ctx=ast.Load())
                        for b in s.body:
                            _SubstLoad(xv, v).visit(b)
                        s.iter = ast.copy_location(ast.Call(func=ast.Name(id="range", ctx=ast.Load()), args=[length_of(inner)],
                                                            keywords=[]), s.iter)
                        s.target = ast.copy_location(ast.Name(id=iv, ctx=ast.Store()), s.target)
                        applied.append(xv)
                        ast.fix_missing_locations(s)
                    elif isinstance(inner, ast.Call) and _call_name(inner) == "zip" and not inner.keywords and \
                            all(_projectable(a) for a in inner.args):
                        # for i, t in enumerate(zip(X, Y))  ->  for i in range(min(len(X), len(Y))) with t[k] read as X[i], Y[i]
                        ok = all(isinstance(p, ast.Subscript) and isinstance(p.slice, ast.Constant)
                                 for b in s.body for n in ast.walk(b) if isinstance(n, ast.Name) and n.id == xv
                                 for p in [_parent_of(b, n)])
                        if ok:
                            class _Elem(ast.NodeTransformer):
                                def visit_Subscript(self, n, _xv=xv, _iv=iv, _args=inner.args):
                                    self.generic_visit(n)
                                    if isinstance(n.value, ast.Name) and n.value.id == _xv and isinstance(n.slice, ast.Constant) \
                                            and isinstance(n.slice.value, int) and 0 <= n.slice.value < len(_args):
                                        return ast.copy_location(ast.Subscript(
                                            value=copy.deepcopy(_args[n.slice.value]), slice=ast.Name(id=_iv, ctx=ast.Load()),
                                            ctx=n.ctx), n)
                                    return n
                            for b in s.body:
                                _Elem().visit(b)
                            lens = [length_of(a) for a in inner.args]
                            if len({ast.unparse(x) for x in lens}) == 1:
                                lens = lens[:1]
                            cnt = lens[0] if len(lens) == 1 else ast.Call(func=ast.Name(id="min", ctx=ast.Load()), args=lens, keywords=[])
                            s.iter = ast.copy_location(ast.Call(func=ast.Name(id="range", ctx=ast.Load()), args=[cnt], keywords=[]), s.iter)
                            s.target = ast.copy_location(ast.Name(id=iv, ctx=ast.Store()), s.target)
                            applied.append(xv)
                            ast.fix_missing_locations(s)
                if isinstance(s, ast.Assign):
                    pass
                elif isinstance(s, ast.For) and isinstance(s.target, (ast.Tuple, ast.List)) and new_names(s.target.elts) \
                        and isinstance(s.iter, ast.Call) and _call_name(s.iter) == "zip" and not s.iter.keywords and \
                        len(s.iter.args) == len(s.target.elts) and all(_projectable(a) for a in s.iter.args) and \
                        not s.orelse:
                    # for a, b in zip(X, Y)  ->  for k in range(min(len(X), len(Y))) with a, b read as X[k], Y[k]
                    name = f"_ut{fresh[0]}"
                    fresh[0] += 1
                    for t, a in zip(s.target.elts, s.iter.args):
                        v = ast.Subscript(value=copy.deepcopy(a), slice=ast.Name(id=name, ctx=ast.Load()), ctx=ast.Load())
                        for b in s.body:
                            _SubstLoad(t.id, v).visit(b)
                    applied.append(",".join(t.id for t in s.target.elts))
                    lens = [length_of(a) for a in s.iter.args]
                    if len({ast.unparse(x) for x in lens}) == 1:
                        lens = lens[:1]
                    cnt = lens[0] if len(lens) == 1 else ast.Call(func=ast.Name(id="min", ctx=ast.Load()), args=lens, keywords=[])
                    s.iter = ast.copy_location(ast.Call(func=ast.Name(id="range", ctx=ast.Load()), args=[cnt], keywords=[]),
                                               s.iter)
                    s.target = ast.copy_location(ast.Name(id=name, ctx=ast.Store()), s.target)
                    ast.fix_missing_locations(s)
                elif isinstance(s, ast.For) and isinstance(s.target, (ast.Tuple, ast.List)) and new_names(s.target.elts) \
                        and not (isinstance(s.iter, ast.Call) and _call_name(s.iter).split(".")[-1] in
                                 ("zip", "enumerate", "items", "product")):
                    name = f"_ut{fresh[0]}"
                    fresh[0] += 1
                    like = s.target
                    for k, t in enumerate(s.target.elts):
                        v = ast.Subscript(value=ast.Name(id=name, ctx=ast.Load()), slice=ast.Constant(value=k), ctx=ast.Load())
                        for b in s.body + s.orelse:
                            _SubstLoad(t.id, v).visit(b)
                    applied.append(",".join(t.id for t in s.target.elts))
                    s.target = ast.copy_location(ast.Name(id=name, ctx=ast.Store()), like)
                    ast.fix_missing_locations(s)
                i += 1
    return applied


def reuse_loop_names(fn):
    """a temporary loop index (`_utN`) that ranges over the same `range(E)` as another, disjoint loop of the function
    takes that loop's variable name (the reference reuses `lv` / `i` in consecutive loops)"""
    applied = []
    loops = [n for n in ast.walk(fn) if isinstance(n, ast.For) and isinstance(n.target, ast.Name)]
    for lp in loops:
        if not lp.target.id.startswith("_ut"):
            continue
        it = ast.unparse(lp.iter)
        inside = {id(x) for x in ast.walk(lp)}
        for other in loops:
            if other is lp or other.target.id.startswith("_ut") or ast.unparse(other.iter) != it:
                continue
            v = other.target.id
            if id(other) in inside or any(x is lp for x in ast.walk(other)):
                continue
            if any(isinstance(x, ast.Name) and x.id == v for b in lp.body for x in ast.walk(b)):
                continue
            # v must not be read after lp expecting other's last value: conservative — no load of v after lp at all
            end = getattr(lp, "end_lineno", None)
            if end is not None and any(isinstance(x, ast.Name) and x.id == v and isinstance(x.ctx, ast.Load) and
                                       getattr(x, "lineno", 0) > end for x in ast.walk(fn)):
                continue
            old = lp.target.id
            for x in ast.walk(lp):
                if isinstance(x, ast.Name) and x.id == old:
                    x.id = v
            applied.append(f"{old}->{v}")
            break
    # second stage: no loop over the same range — take the variable of a disjoint loop at the same nesting depth
    def depth(node):
        d, cur = 0, node
        par = {id(c): p for p in ast.walk(fn) for c in ast.iter_child_nodes(p)}
        while id(cur) in par:
            cur = par[id(cur)]
            if isinstance(cur, (ast.For, ast.While)):
                d += 1
        return d
    for lp in loops:
        if not lp.target.id.startswith("_ut"):
            continue
        inside = {id(x) for x in ast.walk(lp)}
        enclosing_targets = {o.target.id for o in loops if o is not lp and any(x is lp for x in ast.walk(o))}
        for other in loops:
            v = other.target.id
            if other is lp or v.startswith("_ut") or id(other) in inside or any(x is lp for x in ast.walk(other)) \
                    or v in enclosing_targets:
                continue
            if not (isinstance(other.iter, ast.Call) and _call_name(other.iter) == "range"):
                continue
            if any(isinstance(x, ast.Name) and x.id == v for b in lp.body for x in ast.walk(b)):
                continue
            end = getattr(lp, "end_lineno", None)
            if end is not None and any(isinstance(x, ast.Name) and x.id == v and isinstance(x.ctx, ast.Load) and
                                       getattr(x, "lineno", 0) > end and id(x) not in
                                       {id(y) for o in loops if o.target.id == v for y in ast.walk(o)}
                                       for x in ast.walk(fn)):
                continue
            old = lp.target.id
            for x in ast.walk(lp):
                if isinstance(x, ast.Name) and x.id == old:
                    x.id = v
            applied.append(f"{old}->{v}")
            break
    return applied


def inline_new_locals(relpath, tree):
    """Inline Variable for locals absent from the reference function (run after alpha-normalisation)"""
    ref = alpha.load_ref().get(relpath)
    applied = []
    if not ref:
        return applied
    g = alpha.module_globals(tree)
    for q, fn in alpha.functions_of(tree):
        r = ref.get(q)
        if r is None:
            continue
        params, local = alpha.function_locals(fn, g)
        cands = {n for n in local if n not in r["locals"] and n not in r["params"]}
        if not cands:
            continue
        for v in split_disjoint_bindings(fn, cands):
            applied.append((q, "split-bindings", v))
        for v in untuple_new_locals(fn, cands):
            applied.append((q, "untuple", v))
        params, local = alpha.function_locals(fn, g)
        cands = {n for n in local if n not in r["locals"] and n not in r["params"]}
        for v in publish_fresh_containers(fn, cands):
            applied.append((q, "publish", v))
        for v in reuse_loop_names(fn):
            applied.append((q, "loop-name", v))
        for v in coalesce_aliases(fn, cands):
            applied.append((q, "alias", v))
        for v in VarInliner(fn, cands).run():
            applied.append((q, "inline-var", v))
    return applied
