#!/venv/bin/python
"""Entry point:  run_check.py Cxx --tier quick|thorough [--repo DIR]
                 run_check.py --replay <replay.json> [--repo DIR]

Static analysis only: parses the working tree under --repo (default /repo); never
imports or executes amr_kitchen.  Exit 0 held / 1 VIOLATION / 2 ANALYSIS-ERROR.
"""
import argparse
import importlib
import json
import os
import sys
import traceback

HERE = os.path.dirname(os.path.abspath(__file__))
sys.path.insert(0, HERE)

from vk.model import Program, AnalysisError  # noqa: E402
from vk.report import Ctx, finish  # noqa: E402


def run(prop, tier, repo):
    try:
        prog = Program(repo)
        ctx = Ctx(prop, tier, prog)
        ctx.note("program", prog.stats())
        mod = importlib.import_module(f"checks.{prop}")
        explanation, trusted = "", []
        try:
            explanation, trusted = mod.run(ctx)
        except AnalysisError as e:
            # an obligation of the property's own rule set could not be evaluated: recorded as undecided; the rules
            # that did run and the generic lints still report (a positive violation is not hidden behind it)
            ctx.unknown(e.rule, e.site, e.reason + " (the remaining rules of this check were not evaluated)")
            explanation = "incomplete run: " + str(e)
        from vk import generic
        generic.sweep(ctx)
        return finish(ctx, explanation, trusted)
    except AnalysisError as e:
        print(f"ANALYSIS-ERROR property={prop} {e}")
        return 2
    except Exception:
        tb = traceback.format_exc()
        print(f"ANALYSIS-ERROR property={prop} rule=internal site=- reason=unexpected exception in the checker")
        print(tb)
        return 2


def main():
    ap = argparse.ArgumentParser()
    ap.add_argument("prop", nargs="?")
    ap.add_argument("--tier", default=os.environ.get("VERIF_TIER", "quick"), choices=["quick", "thorough"])
    ap.add_argument("--repo", default=os.environ.get("VERIF_REPO", "/repo"))
    ap.add_argument("--replay")
    a = ap.parse_args()
    if a.replay:
        with open(a.replay) as fh:
            rp = json.load(fh)
        print(f"replaying {rp['id']} (property {rp['property']}): {rp['witness']}")
        code = run(rp["property"], "thorough", a.repo)
        sys.exit(code)
    if not a.prop:
        ap.error("property id required")
    sys.exit(run(a.prop, a.tier, a.repo))


if __name__ == "__main__":
    main()
